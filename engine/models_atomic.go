package main

import (
	"strings"

	"golang.org/x/tools/go/ssa"
)

func atomicWidth(name string) (uint, bool) {
	switch {
	case strings.HasSuffix(name, "Uint32"):
		return 32, false
	case strings.HasSuffix(name, "Int32"):
		return 32, true
	case strings.HasSuffix(name, "Uint64"), strings.HasSuffix(name, "Uintptr"):
		return 64, false
	case strings.HasSuffix(name, "Int64"):
		return 64, true
	}
	return 0, false
}

func init() {
	for _, suf := range []string{"Uint32", "Int32", "Uint64", "Int64", "Uintptr", "Pointer"} {
		suf := suf
		models["sync/atomic.Load"+suf] = func(ex *Exec, fn *ssa.Function, args []Value) Value {
			ex.interfere("atomic")
			return ex.load(args[0], "atomic load")
		}
		models["sync/atomic.Store"+suf] = func(ex *Exec, fn *ssa.Function, args []Value) Value {
			ex.interfere("atomic")
			ex.store(args[0], args[1], "atomic store")
			return nil
		}
		models["sync/atomic.Swap"+suf] = func(ex *Exec, fn *ssa.Function, args []Value) Value {
			ex.interfere("atomic")
			old := ex.load(args[0], "atomic swap")
			ex.store(args[0], args[1], "atomic swap")
			return old
		}
		models["sync/atomic.CompareAndSwap"+suf] = func(ex *Exec, fn *ssa.Function, args []Value) Value {
			ex.interfere("atomic")
			cur := ex.load(args[0], "atomic cas")
			if ex.branch(ex.eq(cur, args[1])) {
				ex.store(args[0], args[2], "atomic cas")
				return ex.ctx.tTrue
			}
			return ex.ctx.tFalse
		}
		if suf != "Pointer" {
			models["sync/atomic.Add"+suf] = func(ex *Exec, fn *ssa.Function, args []Value) Value {
				ex.interfere("atomic")
				w, s := atomicWidth(fn.Name())
				cur := ex.load(args[0], "atomic add").(*Term)
				nv := ex.ctx.Wrap(ex.ctx.Add(cur, args[1].(*Term)), w, s)
				ex.store(args[0], nv, "atomic add")
				return nv
			}
			models["sync/atomic.And"+suf] = func(ex *Exec, fn *ssa.Function, args []Value) Value {
				ex.incon("atomic.And not modelled")
				return nil
			}
		}
	}
	// atomic.Value: field 0 holds the interface value
	models["(*sync/atomic.Value).Load"] = func(ex *Exec, fn *ssa.Function, args []Value) Value {
		ex.interfere("atomic")
		s := (*args[0].(*Value)).(Struct)
		if i, ok := s[0].(Iface); ok {
			return i
		}
		return Iface{}
	}
	models["(*sync/atomic.Value).Store"] = func(ex *Exec, fn *ssa.Function, args []Value) Value {
		ex.interfere("atomic")
		s := (*args[0].(*Value)).(Struct)
		s[0] = args[1]
		return nil
	}
	models["(*sync/atomic.Value).Swap"] = func(ex *Exec, fn *ssa.Function, args []Value) Value {
		ex.interfere("atomic")
		s := (*args[0].(*Value)).(Struct)
		old := s[0]
		s[0] = args[1]
		if i, ok := old.(Iface); ok {
			return i
		}
		return Iface{}
	}
}
