package main

import (
	"fmt"
	"math/big"
	"os"
	"sort"
	"strings"
	"time"

	"golang.org/x/tools/go/ssa"
)

type Engine struct {
	prog        *ssa.Program
	feasTimeout int
	qTimeout    int
	skipInit    map[string]bool
	trace       bool
	solverKind  string
	known       []KnownFinding
	property    string
	tier        string
	workDir     string
	smtLog      bool
}

type KnownFinding struct {
	Property string `json:"property"`
	ID       string `json:"id"`
	Status   string `json:"status"` // known | fixed
	Harness  string `json:"harness"`
	Label    string `json:"label"`
	Region   string `json:"region"`
	What     string `json:"what"`
	Commit   string `json:"commit,omitempty"`
}

type Violation struct {
	Harness   string            `json:"harness"`
	Label     string            `json:"label"`
	Kind      string            `json:"kind"` // assert | panic
	Vals      map[string]string `json:"vals"`
	KnownID   string            `json:"known_id,omitempty"`
	Msg       string            `json:"msg,omitempty"`
	Replayed  bool              `json:"replayed"`
	ReplayOK  bool              `json:"replay_confirms"`
	ReplayOut string            `json:"replay_out,omitempty"`
	File      string            `json:"file,omitempty"`
}

type Witness struct {
	Harness  string            `json:"harness"`
	Label    string            `json:"label"`
	Vals     map[string]string `json:"vals"`
	Observed map[string]string `json:"observed,omitempty"`
	Replayed bool              `json:"replayed"`
	ReplayOK bool              `json:"replay_confirms"`
	Note     string            `json:"note,omitempty"`
}

type AssertStat struct {
	Checked int `json:"checked"`
	Unsat   int `json:"unsat"`
	Sat     int `json:"sat"`
	Unknown int `json:"unknown"`
}

type HarnessResult struct {
	Name         string                 `json:"harness"`
	Pkg          string                 `json:"pkg"`
	Paths        int                    `json:"paths"`
	PathsEnded   map[string]int         `json:"path_outcomes"`
	Instrs       int                    `json:"ssa_instructions_executed"`
	Asserts      map[string]*AssertStat `json:"assertions"`
	Violations   []*Violation           `json:"violations,omitempty"`
	Witnesses    []*Witness             `json:"witnesses,omitempty"`
	Inconclusive []string               `json:"inconclusive,omitempty"`
	GoSkipped    map[string]bool        `json:"go_statements_skipped,omitempty"`
	Recovered    int                    `json:"panics_recovered"`
	Funcs        []string               `json:"functions_encoded"`
	Models       []string               `json:"functions_modelled"`
	Stubs        []string               `json:"functions_stubbed,omitempty"`
	Queries      int                    `json:"queries"`
	QSat         int                    `json:"sat"`
	QUnsat       int                    `json:"unsat"`
	QUnknown     int                    `json:"unknown"`
	SolverS      float64                `json:"solver_s"`
	WallS        float64                `json:"wall_s"`
	Solver       string                 `json:"solver"`
	Bounds       map[string]int         `json:"bounds"`
	KnownHits    map[string]bool        `json:"known_hits,omitempty"`
	StaleKnown   []string               `json:"stale_known,omitempty"`
	violLabels   map[string]bool
	reached      map[string]bool
	Params       map[string]int `json:"params,omitempty"`
}

func (e *Engine) runHarness(cfg *HarnessCfg, pkg *ssa.Package) *HarnessResult {
	gil.Lock()
	defer gil.Unlock()
	t0 := time.Now()
	if cfg.Unwind == 0 {
		cfg.Unwind = 8
	}
	if cfg.MaxDepth == 0 {
		cfg.MaxDepth = 60
	}
	if cfg.MaxPaths == 0 {
		cfg.MaxPaths = 20000
	}
	if cfg.MaxSteps == 0 {
		cfg.MaxSteps = 3000000
	}
	if cfg.MapOrder == "" {
		cfg.MapOrder = "insertion"
	}
	if cfg.TimeoutMs == 0 {
		cfg.TimeoutMs = e.qTimeout
	}
	res := &HarnessResult{Name: cfg.Name, Pkg: cfg.Pkg, PathsEnded: map[string]int{}, Asserts: map[string]*AssertStat{},
		GoSkipped: map[string]bool{}, KnownHits: map[string]bool{}, violLabels: map[string]bool{}, reached: map[string]bool{},
		Solver: e.solverKind, Params: cfg.Params,
		Bounds: map[string]int{"unwind": cfg.Unwind, "maxdepth": cfg.MaxDepth, "maxpaths": cfg.MaxPaths, "query_timeout_ms": cfg.TimeoutMs}}
	ctx := NewCtx()
	ctx.factorSimp = cfg.FactorSimp
	logPath := ""
	if e.smtLog {
		logPath = fmt.Sprintf("%s/%s.smt2", e.workDir, cfg.Name)
	}
	sol := NewSolver(e.solverKind, ctx, logPath)
	sol.IncBudgetMs = cfg.IncBudgetMs
	defer sol.Close()
	ex := &Exec{prog: e.prog, ctx: ctx, sol: sol, cfg: cfg, pkg: pkg, eng: e, res: res,
		funcsSeen: map[string]bool{}, modelsHit: map[string]bool{}, stubsHit: map[string]bool{}}
	if cfg.Interfere != "" {
		ex.interfereFn = pkg.Func(cfg.Interfere)
		if ex.interfereFn == nil {
			res.Inconclusive = append(res.Inconclusive, "interference function not found: "+cfg.Interfere)
			return res
		}
	}
	fn := pkg.Func(cfg.Name)
	if fn == nil {
		res.Inconclusive = append(res.Inconclusive, "harness function not found: "+cfg.Name)
		return res
	}
	ex.work = [][]int{{}}
	nIncon := 0
	for len(ex.work) > 0 {
		if res.Paths >= cfg.MaxPaths {
			res.Inconclusive = append(res.Inconclusive, fmt.Sprintf("path budget %d exhausted with %d pending", cfg.MaxPaths, len(ex.work)))
			break
		}
		// depth-first: take last
		prefix := ex.work[len(ex.work)-1]
		ex.work = ex.work[:len(ex.work)-1]
		res.Paths++
		outcome := ex.runPath(fn, prefix)
		res.PathsEnded[outcome.kind]++
		if outcome.kind == "inconclusive" || outcome.kind == "unwind" || outcome.kind == "engine-error" {
			msg := outcome.kind + ": " + outcome.msg
			dup := false
			for _, m := range res.Inconclusive {
				if m == msg {
					dup = true
				}
			}
			if !dup {
				res.Inconclusive = append(res.Inconclusive, msg)
			}
			nIncon++
			if nIncon > 50 {
				res.Inconclusive = append(res.Inconclusive, "too many inconclusive paths; exploration stopped")
				break
			}
		}
		if e.trace || os.Getenv("VERIF_PROGRESS") != "" {
			if res.Paths%50 == 0 {
				fmt.Fprintf(os.Stderr, "[%s] paths=%d pending=%d queries=%d\n", cfg.Name, res.Paths, len(ex.work), sol.Queries)
			}
		}
	}
	for _, l := range cfg.Reach {
		if !res.reached[l] {
			res.Inconclusive = append(res.Inconclusive, "reachability witness not reached (vacuity guard): "+l)
		}
	}
	// stale known findings
	for _, k := range e.known {
		if k.Status == "known" && k.Harness == cfg.Name && !res.KnownHits[k.ID] {
			res.StaleKnown = append(res.StaleKnown, k.ID)
		}
	}
	res.Funcs = sortedKeys(ex.funcsSeen)
	res.Models = sortedKeys(ex.modelsHit)
	res.Stubs = sortedKeys(ex.stubsHit)
	res.Queries, res.QSat, res.QUnsat, res.QUnknown = sol.Queries, sol.NSat, sol.NUnsat, sol.NUnk+sol.NErr
	res.SolverS = sol.Time.Seconds()
	res.WallS = time.Since(t0).Seconds()
	return res
}

func sortedKeys(m map[string]bool) []string {
	var out []string
	for k := range m {
		out = append(out, k)
	}
	sort.Strings(out)
	return out
}

type pathOutcome struct {
	kind string
	msg  string
}

func (ex *Exec) runPath(fn *ssa.Function, prefix []int) (out pathOutcome) {
	ex.resetPath(prefix)
	defer func() {
		if r := recover(); r != nil {
			switch r := r.(type) {
			case pathEnd:
				out = pathOutcome{"ended:" + r.reason, ""}
			case goPanic:
				if ex.cfg.PanicOK {
					out = pathOutcome{"panic-accepted", r.msg}
					return
				}
				ex.reportViolation("panic", "panic", ex.ctx.tFalse, r.msg)
				out = pathOutcome{"panic", r.msg}
			case unwindHit:
				out = pathOutcome{"unwind", "loop bound " + fmt.Sprint(ex.cfg.Unwind) + " reached on a feasible path at " + r.where}
			case inconclusive:
				out = pathOutcome{"inconclusive", r.reason + " [stack: " + ex.abortStack + "]"}
			case unknownUse:
				out = pathOutcome{"inconclusive", "use of unknown value: " + r.u.why + " [stack: " + ex.abortStack + "]"}
			case fatalErr:
				out = pathOutcome{"engine-error", r.msg + " [stack: " + ex.abortStack + "]"}
			default:
				st := stackTrace()
				if len(st) > 9000 {
					st = st[:9000]
				}
				out = pathOutcome{"engine-error", fmt.Sprintf("%v\n%s", r, st)}
			}
		}
	}()
	ex.callFn(fn, nil, nil)
	return pathOutcome{"returned", ""}
}

// modelVals converts a solver model into the replay table.
func (ex *Exec) modelVals(mi map[string]*big.Int, mb map[string]bool) map[string]string {
	vals := map[string]string{}
	for _, v := range ex.ctx.vars {
		if !strings.HasPrefix(v.name, "nd:") {
			continue
		}
		name := strings.TrimPrefix(v.name, "nd:")
		if v.sort == SBool {
			vals[name] = fmt.Sprint(mb[v.name])
			continue
		}
		if x, ok := mi[v.name]; ok {
			vals[name] = x.String()
		} else if v.lo != nil && v.lo.Sign() > 0 {
			vals[name] = v.lo.String()
		} else if v.hi != nil && v.hi.Sign() < 0 {
			vals[name] = v.hi.String()
		} else {
			vals[name] = "0"
		}
	}
	for k, v := range ex.concrete {
		vals[k] = v
	}
	// only keep variables created on this path or referenced: harmless to keep all
	return vals
}

// activeRegions returns the known-finding regions that apply to this harness+label.
func (ex *Exec) activeRegions(label string) map[string]*Term {
	out := map[string]*Term{}
	for _, k := range ex.eng.known {
		if k.Status != "known" || k.Harness != ex.cfg.Name {
			continue
		}
		if k.Label != "" && k.Label != label && k.Label != "*" {
			continue
		}
		if t, ok := ex.known[k.ID]; ok {
			out[k.ID] = t
		}
	}
	return out
}

// reportViolation: cond is the asserted condition (false for panics). Queries PC ∧ ¬cond, classifies by known regions.
func (ex *Exec) reportViolation(kind, label string, cond *Term, msg string) {
	res := ex.res
	st := res.Asserts[label]
	if st == nil {
		st = &AssertStat{}
		res.Asserts[label] = st
	}
	st.Checked++
	if cond.isConst && cond.cBool {
		st.Unsat++
		return
	}
	regions := ex.activeRegions(label)
	excl := []*Term{}
	for iter := 0; iter < 8; iter++ {
		if res.violLabels[label] {
			// already a reported (non-known) violation for this label: do not search for more
			return
		}
		q := append(append([]*Term{}, ex.pc...), ex.ctx.Not(cond))
		q = append(q, excl...)
		r, mi, mb := ex.sol.Check(q, ex.cfg.TimeoutMs, true)
		switch r {
		case "unsat":
			if iter == 0 {
				st.Unsat++
			}
			return
		case "sat":
			if iter == 0 {
				st.Sat++
			}
			// which known region does the model fall in?
			hit := ""
			memo := map[int]interface{}{}
			ids := make([]string, 0, len(regions))
			for id := range regions {
				ids = append(ids, id)
			}
			sort.Strings(ids)
			for _, id := range ids {
				if v, ok := ex.ctx.eval(regions[id], mi, mb, memo).(bool); ok && v {
					hit = id
					break
				}
			}
			v := &Violation{Harness: ex.cfg.Name, Label: label, Kind: kind, Vals: ex.modelVals(mi, mb), KnownID: hit, Msg: msg}
			if hit != "" {
				if !res.KnownHits[hit] {
					res.KnownHits[hit] = true
					res.Violations = append(res.Violations, v)
				}
				excl = append(excl, ex.ctx.Not(regions[hit]))
				continue
			}
			res.violLabels[label] = true
			res.Violations = append(res.Violations, v)
			return
		default:
			if iter == 0 {
				st.Unknown++
			}
			res.Inconclusive = appendUniq(res.Inconclusive, fmt.Sprintf("solver %s on assertion %q (timeout %d ms)", r, label, ex.cfg.TimeoutMs))
			return
		}
	}
}

func appendUniq(l []string, s string) []string {
	for _, x := range l {
		if x == s {
			return l
		}
	}
	return append(l, s)
}

func (ex *Exec) reach(label string) {
	res := ex.res
	if res.reached[label] {
		return
	}
	r, mi, mb := ex.sol.Check(ex.pc, ex.cfg.TimeoutMs, true)
	if r != "sat" {
		return
	}
	res.reached[label] = true
	w := &Witness{Harness: ex.cfg.Name, Label: label, Vals: ex.modelVals(mi, mb), Observed: map[string]string{}}
	memo := map[int]interface{}{}
	for k, v := range ex.observed {
		if t, ok := v.(*Term); ok {
			w.Observed[k] = fmt.Sprint(ex.ctx.eval(t, mi, mb, memo))
		}
	}
	res.Witnesses = append(res.Witnesses, w)
}
