package main

// Models of time, cosmos-sdk leaf helpers and lava logging.

import (
	"go/types"
	"strconv"
	"fmt"
	"math"
	"math/big"
	"strings"
	"time"

	"golang.org/x/tools/go/ssa"
)

const unixToInternal int64 = (1969*365 + 1969/4 - 1969/100 + 1969/400) * 86400

func (ex *Exec) timeParts(v Value) (wall, ext *Term, loc Value) {
	s, ok := v.(Struct)
	if !ok {
		if u, isu := v.(Unknown); isu {
			panic(unknownUse{u})
		}
		ex.incon("time model: unexpected value %T", v)
	}
	return s[0].(*Term), s[1].(*Term), s[2]
}

func (ex *Exec) concreteTime(v Value) (time.Time, bool) {
	wall, ext, _ := ex.timeParts(v)
	if !wall.isConst || !ext.isConst {
		return time.Time{}, false
	}
	if wall.cInt.Sign() < 0 || wall.cInt.Cmp(big.NewInt(1e9)) >= 0 {
		return time.Time{}, false
	}
	return time.Unix(ext.cInt.Int64()-unixToInternal, wall.cInt.Int64()).UTC(), true
}

func (ex *Exec) mkTime(t time.Time) Value {
	return Struct{ex.ctx.Int(int64(t.Nanosecond())), ex.ctx.Int(t.Unix() + unixToInternal), (*Value)(nil)}
}

func init() {
	models["(time.Time).AddDate"] = func(ex *Exec, fn *ssa.Function, args []Value) Value {
		c := ex.ctx
		wall, ext, loc := ex.timeParts(args[0])
		y := ex.asTerm(args[1], "AddDate years")
		m := ex.asTerm(args[2], "AddDate months")
		d := ex.asTerm(args[3], "AddDate days")
		if y.isConst && m.isConst && y.cInt.Sign() == 0 && m.cInt.Sign() == 0 {
			// UTC (no DST): day arithmetic is exact second arithmetic
			return Struct{wall, c.Wrap(c.Add(ext, c.Mul(d, c.Int(86400))), 64, true), loc}
		}
		if t, ok := ex.concreteTime(args[0]); ok && y.isConst && m.isConst && d.isConst {
			return ex.mkTime(t.AddDate(int(y.cInt.Int64()), int(m.cInt.Int64()), int(d.cInt.Int64())))
		}
		ex.incon("time.AddDate with months/years on a symbolic time")
		return nil
	}
	models["time.Now"] = func(ex *Exec, fn *ssa.Function, args []Value) Value {
		sec := ex.ndInt("time.Now", big.NewInt(1500000000+unixToInternal), big.NewInt(4000000000+unixToInternal))
		if ex.lastNow != nil {
			ex.assume(ex.ctx.Ge(sec, ex.lastNow))
		}
		ex.lastNow = sec
		return Struct{ex.ctx.Int(0), sec, (*Value)(nil)}
	}
	models["time.Since"] = func(ex *Exec, fn *ssa.Function, args []Value) Value {
		now := models["time.Now"](ex, fn, nil).(Struct)
		_, ext, _ := ex.timeParts(args[0])
		return ex.ctx.Wrap(ex.ctx.Mul(ex.ctx.Sub(now[1].(*Term), ext), ex.ctx.Int(1e9)), 64, true)
	}
	models["time.Date"] = func(ex *Exec, fn *ssa.Function, args []Value) Value {
		var v [7]int
		for i := 0; i < 7; i++ {
			t := ex.asTerm(args[i], "time.Date")
			if !t.isConst {
				ex.incon("time.Date with symbolic component (calendar arithmetic is not encoded)")
			}
			v[i] = int(t.cInt.Int64())
		}
		return ex.mkTime(time.Date(v[0], time.Month(v[1]), v[2], v[3], v[4], v[5], v[6], time.UTC))
	}
	cal := func(f func(t time.Time) int64) Model {
		return func(ex *Exec, fn *ssa.Function, args []Value) Value {
			t, ok := ex.concreteTime(args[0])
			if !ok {
				ex.incon("calendar accessor %s on a symbolic time (calendar arithmetic is not encoded)", fn.Name())
			}
			return ex.ctx.Int(f(t))
		}
	}
	models["(time.Time).Year"] = cal(func(t time.Time) int64 { return int64(t.Year()) })
	models["(time.Time).Month"] = cal(func(t time.Time) int64 { return int64(t.Month()) })
	models["(time.Time).Day"] = cal(func(t time.Time) int64 { return int64(t.Day()) })
	models["(time.Time).Hour"] = cal(func(t time.Time) int64 { return int64(t.Hour()) })
	models["(time.Time).Minute"] = cal(func(t time.Time) int64 { return int64(t.Minute()) })
	models["(time.Time).Second"] = cal(func(t time.Time) int64 { return int64(t.Second()) })
	models["(time.Time).Weekday"] = cal(func(t time.Time) int64 { return int64(t.Weekday()) })
	models["(time.Time).YearDay"] = cal(func(t time.Time) int64 { return int64(t.YearDay()) })
	models["(time.Time).Date"] = func(ex *Exec, fn *ssa.Function, args []Value) Value {
		t, ok := ex.concreteTime(args[0])
		if !ok {
			ex.incon("Time.Date on a symbolic time")
		}
		y, m, d := t.Date()
		return Tuple{ex.ctx.Int(int64(y)), ex.ctx.Int(int64(m)), ex.ctx.Int(int64(d))}
	}
	strOpaque := func(tag string) Model {
		return func(ex *Exec, fn *ssa.Function, args []Value) Value { return ex.opaqueStr(tag) }
	}
	models["(time.Time).String"] = strOpaque("time")
	models["(time.Time).Format"] = strOpaque("time")
	models["(time.Duration).String"] = strOpaque("duration")
	// bech32 rendering of addresses: only used for logs / lookups answered by model keepers
	models["(github.com/cosmos/cosmos-sdk/types.AccAddress).String"] = strOpaque("accaddr")
	models["(github.com/cosmos/cosmos-sdk/types.ValAddress).String"] = strOpaque("valaddr")
	// decimal / integer / coin renderings: only flow to events and log attributes
	for _, n := range []string{"(cosmossdk.io/math.LegacyDec).String", "(cosmossdk.io/math.Int).String", "(cosmossdk.io/math.Uint).String",
		"(github.com/cosmos/cosmos-sdk/types.Coin).String", "(github.com/cosmos/cosmos-sdk/types.Coins).String",
		"(github.com/cosmos/cosmos-sdk/types.DecCoin).String", "(github.com/cosmos/cosmos-sdk/types.DecCoins).String"} {
		models[n] = strOpaque("num")
	}
	// utils.NextMonth: same day next month, day-of-month clipped to 28: between 28 and 31 days later (contract)
	models["github.com/lavanet/lava/v5/utils.NextMonth"] = func(ex *Exec, fn *ssa.Function, args []Value) Value {
		c := ex.ctx
		if t, ok := ex.concreteTime(args[0]); ok {
			day := t.Day()
			if day > 28 {
				day = 28
			}
			return ex.mkTime(time.Date(t.Year(), t.Month()+1, day, t.Hour(), t.Minute(), t.Second(), 0, time.UTC))
		}
		_, ext, _ := ex.timeParts(args[0])
		d := ex.ndInt("NextMonth.delta", big.NewInt(25*86400), big.NewInt(31*86400))
		return Struct{c.Int(0), c.Add(ext, d), (*Value)(nil)}
	}

	// ---- cosmos-sdk leaf helpers ----
	nilErr := func(ex *Exec, fn *ssa.Function, args []Value) Value { return Iface{} }
	models["github.com/cosmos/cosmos-sdk/types.ValidateDenom"] = nilErr
	models["github.com/cosmos/cosmos-sdk/types.MustSortJSON"] = func(ex *Exec, fn *ssa.Function, args []Value) Value { return args[0] }
	nop := func(ex *Exec, fn *ssa.Function, args []Value) Value { return nil }
	for _, n := range []string{"EmitEvent", "EmitEvents", "EmitTypedEvent", "EmitTypedEvents"} {
		n := n
		models["(*github.com/cosmos/cosmos-sdk/types.EventManager)."+n] = func(ex *Exec, fn *ssa.Function, args []Value) Value {
			if fn.Signature.Results().Len() == 1 {
				return Iface{}
			}
			return nil
		}
	}
	models["github.com/cosmos/cosmos-sdk/types.NewEventManager"] = func(ex *Exec, fn *ssa.Function, args []Value) Value {
		return (*Value)(nil)
	}
	_ = nop

	// stack capture of github.com/pkg/errors (used by cosmossdk.io/errors.Wrap): no stack, the error itself is kept
	// proto.MessageName (reflection over the registry): the dynamic type's name stands in for the registered name
	for _, n := range []string{"github.com/gogo/protobuf/proto.MessageName", "github.com/cosmos/gogoproto/proto.MessageName"} {
		models[n] = func(ex *Exec, fn *ssa.Function, args []Value) Value {
			if i, ok := args[0].(Iface); ok && i.t != nil {
				return Str{s: strings.TrimPrefix(i.t.String(), "*")}
			}
			return Str{}
		}
	}
	// proto.CompactTextString (reflection): a canonical text of the concrete message - non-zero fields in declaration
	// order as name:value.  Injective on concrete messages, which is what its callers (map keys, log lines) rely on.
	for _, n := range []string{"github.com/gogo/protobuf/proto.CompactTextString", "github.com/cosmos/gogoproto/proto.CompactTextString"} {
		models[n] = func(ex *Exec, fn *ssa.Function, args []Value) Value {
			i, ok := args[0].(Iface)
			if !ok || i.t == nil {
				return Str{s: "<nil>"}
			}
			pt, ok := i.t.Underlying().(*types.Pointer)
			p, okp := i.v.(*Value)
			if !ok || !okp || p == nil {
				return Str{s: "<nil>"}
			}
			txt, ok := ex.compactText(*p, pt.Elem(), 0)
			if !ok {
				return ex.opaqueStr("prototext:" + pt.Elem().String())
			}
			return Str{s: txt}
		}
	}
	models["github.com/pkg/errors.WithStack"] = func(ex *Exec, fn *ssa.Function, args []Value) Value { return args[0] }
	models["runtime.Callers"] = func(ex *Exec, fn *ssa.Function, args []Value) Value { return ex.ctx.Int(0) }

	// ---- lava logging ----
	L := "github.com/lavanet/lava/v5/utils."
	models[L+"LavaFormatLog"] = func(ex *Exec, fn *ssa.Function, args []Value) Value {
		sev := ex.asTerm(args[3], "severity")
		if !sev.isConst {
			ex.incon("LavaFormatLog with symbolic severity")
		}
		// LAVA_LOG_PANIC = 0? resolved below through constants of the utils package
		lvl := sev.cInt.Int64()
		if lvl == ex.lavaLogConst("LAVA_LOG_PANIC") {
			d, _ := args[0].(Str)
			panic(goPanic{msg: "LavaFormatPanic: " + d.s})
		}
		if lvl == ex.lavaLogConst("LAVA_LOG_FATAL") {
			d, _ := args[0].(Str)
			panic(goPanic{msg: "LavaFormatFatal (os.Exit): " + d.s})
		}
		desc, _ := args[0].(Str)
		msg := Str{s: "<lavaerr:" + desc.s + ">", opaque: true}
		if inner, ok := args[1].(Iface); ok && inner.t != nil {
			return ex.wrapErr(msg, inner)
		}
		return ex.newErr(msg)
	}
	for _, n := range []string{"LogLavaEvent", "LogLavaEventDebug", "LogLavaEventWithLevel"} {
		models[L+n] = nop
	}
	models[L+"IsTraceLogLevelEnabled"] = func(ex *Exec, fn *ssa.Function, args []Value) Value { return ex.ctx.tFalse }
	models[L+"IsDebugEnabled"] = func(ex *Exec, fn *ssa.Function, args []Value) Value { return ex.ctx.tFalse }
	models[L+"StrValue"] = strOpaque("strvalue")
	models[L+"StrValueForLog"] = strOpaque("strvalue")
}

func (ex *Exec) lavaLogConst(name string) int64 {
	p := ex.prog.ImportedPackage("github.com/lavanet/lava/v5/utils")
	if p == nil {
		ex.incon("utils package not loaded")
	}
	if c, ok := p.Members[name].(*ssa.NamedConst); ok {
		if t, ok := ex.constVal(c.Value).(*Term); ok && t.isConst {
			return t.cInt.Int64()
		}
	}
	ex.incon("constant utils.%s not found", name)
	return -1
}

// math.* on concrete float64 values (symbolic floats are not supported by the encoder)
func init() {
	f1 := func(name string, f func(float64) float64) {
		models["math."+name] = func(ex *Exec, fn *ssa.Function, args []Value) Value {
			x, ok := args[0].(Float)
			if !ok {
				ex.incon("math.%s of a non-concrete float", name)
			}
			return Float{f(x.v)}
		}
	}
	f1("Floor", math.Floor)
	f1("Ceil", math.Ceil)
	f1("Abs", math.Abs)
	f1("Trunc", math.Trunc)
	f1("Round", math.Round)
	f2 := func(name string, f func(a, b float64) float64) {
		models["math."+name] = func(ex *Exec, fn *ssa.Function, args []Value) Value {
			x, ok1 := args[0].(Float)
			y, ok2 := args[1].(Float)
			if !ok1 || !ok2 {
				ex.incon("math.%s of a non-concrete float", name)
			}
			return Float{f(x.v, y.v)}
		}
	}
	f2("Max", math.Max)
	f2("Min", math.Min)
}

var _ = strings.Contains

// math/bits.Len*: the library uses a 256-entry lookup table (symbolic index); modelled as an ite chain over powers of two.
func init() {
	lenModel := func(width int) Model {
		return func(ex *Exec, fn *ssa.Function, args []Value) Value {
			c := ex.ctx
			x := ex.asTerm(args[0], "bits.Len")
			if x.isConst {
				return c.Int(int64(x.cInt.BitLen()))
			}
			res := c.Int(0)
			for n := 1; n <= width; n++ {
				// x >= 2^(n-1)  =>  Len >= n
				res = c.Ite(c.Ge(x, c.IntBig(pow2(uint(n-1)))), c.Int(int64(n)), res)
			}
			return res
		}
	}
	models["math/bits.Len64"] = lenModel(64)
	models["math/bits.Len32"] = lenModel(32)
	models["math/bits.Len16"] = lenModel(16)
	models["math/bits.Len8"] = lenModel(8)
	models["math/bits.Len"] = lenModel(64)
}

func (ex *Exec) compactText(v Value, t types.Type, depth int) (string, bool) {
	if depth > 6 {
		return "", false
	}
	switch u := types.Unalias(t).Underlying().(type) {
	case *types.Struct:
		st, ok := v.(Struct)
		if !ok || len(st) != u.NumFields() {
			return "", false
		}
		var sb strings.Builder
		for i := range st {
			if !u.Field(i).Exported() {
				continue
			}
			f, ok := ex.compactText(st[i], u.Field(i).Type(), depth+1)
			if !ok {
				return "", false
			}
			if f == "" || f == "0" || f == "false" || f == "\"\"" {
				continue
			}
			sb.WriteString(u.Field(i).Name() + ":" + f + " ")
		}
		return sb.String(), true
	case *types.Basic:
		switch x := v.(type) {
		case Str:
			if !x.isConcrete() {
				return "", false
			}
			return strconv.Quote(x.s), true
		case *Term:
			if !x.isConst {
				return "", false
			}
			if x.sort == SBool {
				return fmt.Sprint(x.cBool), true
			}
			return x.cInt.String(), true
		}
		return "", false
	case *types.Slice:
		sl, ok := v.(SliceV)
		if !ok {
			return "", v == nil
		}
		var parts []string
		for _, e := range sl {
			f, ok := ex.compactText(e, u.Elem(), depth+1)
			if !ok {
				return "", false
			}
			parts = append(parts, f)
		}
		if len(parts) == 0 {
			return "", true
		}
		return "[" + strings.Join(parts, ",") + "]", true
	case *types.Pointer:
		p, ok := v.(*Value)
		if !ok {
			return "", false
		}
		if p == nil {
			return "", true
		}
		f, ok := ex.compactText(*p, u.Elem(), depth+1)
		return "<" + f + ">", ok
	}
	return "", false
}
