package main

import (
	"os"
	"fmt"
	"go/types"
	"math/big"
	"strings"

	"golang.org/x/tools/go/ssa"
)

type Value = interface{}

type Struct []Value
type Array []Value
type Tuple []Value
type SliceV []Value

// Str: concrete when sym == nil.
type Str struct {
	s      string
	sym    []*Term
	opaque bool
}

type Iface struct {
	t types.Type
	v Value
}

type MapV struct {
	ents []*mapEnt
	kt   types.Type
}
type mapEnt struct {
	k, v Value
}

type Closure struct {
	fn  *ssa.Function
	env []Value
}

type ChanV struct{ id int }

// BigVal is the content of a math/big.Int cell (abstract mathematical integer); all *big.Int methods are modelled.
type BigVal struct{ t *Term }

type Unknown struct{ why string }

type Float struct {
	v float64
}

// RangeIter for maps/strings
type RangeIter struct {
	m     *MapV
	order []*mapEnt
	pos   int
	str   *Str
}

// control-flow panics
type pathEnd struct{ reason string }
type goPanic struct {
	val   Value
	msg   string
	stack string
}

// VERIF_PANIC_STACK=1: append the symbolic call stack to panic messages (diagnostics only; changes violation messages)
var panicStackDiag = os.Getenv("VERIF_PANIC_STACK") != ""
type inconclusive struct{ reason string }
type fatalErr struct{ msg string }

func (ex *Exec) incon(format string, a ...interface{}) {
	panic(inconclusive{fmt.Sprintf(format, a...)})
}

func concreteStr(s string) Str { return Str{s: s} }

func (s Str) isConcrete() bool { return s.sym == nil && !s.opaque }

func (s Str) length() int {
	if s.sym != nil {
		return len(s.sym)
	}
	return len(s.s)
}

func (ex *Exec) strBytes(s Str) []*Term {
	if s.opaque {
		ex.incon("content of opaque (formatted) string used: %q", s.s)
	}
	if s.sym != nil {
		return s.sym
	}
	out := make([]*Term, len(s.s))
	for i := 0; i < len(s.s); i++ {
		out[i] = ex.ctx.Int(int64(s.s[i]))
	}
	return out
}

func (ex *Exec) mkStr(bs []*Term) Str {
	all := true
	for _, b := range bs {
		if !b.isConst {
			all = false
			break
		}
	}
	if all {
		buf := make([]byte, len(bs))
		for i, b := range bs {
			buf[i] = byte(b.cInt.Int64())
		}
		return Str{s: string(buf)}
	}
	cp := make([]*Term, len(bs))
	copy(cp, bs)
	return Str{sym: cp}
}

func isNamed(t types.Type, pkgSuffix, name string) bool {
	n, ok := t.(*types.Named)
	if !ok {
		return false
	}
	o := n.Obj()
	if o.Name() != name || o.Pkg() == nil {
		return false
	}
	return strings.HasSuffix(o.Pkg().Path(), pkgSuffix)
}

// zero value of a type
func (ex *Exec) zero(t types.Type) Value {
	switch t := t.(type) {
	case *types.Basic:
		switch {
		case t.Kind() == types.UntypedNil:
			return nil
		case t.Info()&types.IsBoolean != 0:
			return ex.ctx.Bool(false)
		case t.Info()&types.IsInteger != 0:
			return ex.ctx.Int(0)
		case t.Info()&types.IsFloat != 0:
			return Float{0}
		case t.Info()&types.IsString != 0:
			return Str{}
		case t.Kind() == types.UnsafePointer:
			return (*Value)(nil)
		case t.Info()&types.IsComplex != 0:
			return Unknown{"complex"}
		}
	case *types.Pointer:
		return (*Value)(nil)
	case *types.Struct:
		s := make(Struct, t.NumFields())
		for i := range s {
			s[i] = ex.zero(t.Field(i).Type())
		}
		return s
	case *types.Array:
		a := make(Array, t.Len())
		for i := range a {
			a[i] = ex.zero(t.Elem())
		}
		return a
	case *types.Named:
		return ex.zero(t.Underlying())
	case *types.Alias:
		return ex.zero(types.Unalias(t))
	case *types.Interface:
		return Iface{}
	case *types.Slice:
		return SliceV(nil)
	case *types.Map:
		return (*MapV)(nil)
	case *types.Chan:
		return (*ChanV)(nil)
	case *types.Signature:
		return (*Closure)(nil)
	case *types.Tuple:
		tp := make(Tuple, t.Len())
		for i := range tp {
			tp[i] = ex.zero(t.At(i).Type())
		}
		return tp
	case *types.TypeParam:
		ex.incon("zero of type parameter %s", t)
	}
	ex.incon("zero: unsupported type %s", t)
	return nil
}

// copyVal: value copy (structs and arrays are copied, references shared)
func copyVal(v Value) Value {
	switch v := v.(type) {
	case Struct:
		n := make(Struct, len(v))
		for i := range v {
			n[i] = copyVal(v[i])
		}
		return n
	case Array:
		n := make(Array, len(v))
		for i := range v {
			n[i] = copyVal(v[i])
		}
		return n
	case Tuple:
		n := make(Tuple, len(v))
		for i := range v {
			n[i] = copyVal(v[i])
		}
		return n
	}
	return v
}

// equality as a Bool term
func (ex *Exec) eq(a, b Value) *Term {
	c := ex.ctx
	switch a := a.(type) {
	case nil:
		switch b := b.(type) {
		case nil:
			return c.tTrue
		case Iface:
			return c.Bool(b.t == nil)
		}
		return c.Bool(isNilRef(b))
	case *Term:
		if bt, ok := b.(*Term); ok {
			return c.Eq(a, bt)
		}
	case Float:
		if bf, ok := b.(Float); ok {
			return c.Bool(a.v == bf.v)
		}
	case Str:
		if bs, ok := b.(Str); ok {
			return ex.strEq(a, bs)
		}
	case *Value:
		switch b := b.(type) {
		case *Value:
			return c.Bool(a == b)
		case nil:
			return c.Bool(a == nil)
		}
	case Struct:
		if bs, ok := b.(Struct); ok {
			var parts []*Term
			for i := range a {
				parts = append(parts, ex.eq(a[i], bs[i]))
			}
			return c.And(parts...)
		}
	case Array:
		if bs, ok := b.(Array); ok {
			var parts []*Term
			for i := range a {
				parts = append(parts, ex.eq(a[i], bs[i]))
			}
			return c.And(parts...)
		}
	case Iface:
		switch b := b.(type) {
		case nil:
			return c.Bool(a.t == nil)
		case Iface:
			if a.t == nil || b.t == nil {
				return c.Bool(a.t == nil && b.t == nil)
			}
			if !types.Identical(a.t, b.t) {
				return c.tFalse
			}
			return ex.eq(a.v, b.v)
		}
	case *MapV:
		if b == nil {
			return c.Bool(a == nil)
		}
		if bm, ok := b.(*MapV); ok && (a == nil || bm == nil) {
			return c.Bool(a == nil && bm == nil)
		}
	case SliceV:
		if b == nil {
			return c.Bool(a == nil)
		}
		if bs, ok := b.(SliceV); ok && (a == nil || bs == nil) {
			return c.Bool(a == nil && bs == nil)
		}
	case *Closure:
		if b == nil {
			return c.Bool(a == nil)
		}
		if bc, ok := b.(*Closure); ok && (a == nil || bc == nil) {
			return c.Bool(a == nil && bc == nil)
		}
	case *ssa.Function:
		if b == nil {
			return c.Bool(a == nil)
		}
		if bc, ok := b.(*Closure); ok && bc == nil {
			return c.tFalse
		}
	case *ssa.Builtin:
		return c.tFalse
	case *ChanV:
		if b == nil {
			return c.Bool(a == nil)
		}
		if bc, ok := b.(*ChanV); ok {
			return c.Bool(a == bc)
		}
	case BigVal:
		if bb, ok := b.(BigVal); ok {
			return c.Eq(a.t, bb.t)
		}
	case Unknown:
		ex.incon("comparison on unknown value: %s", a.why)
	}
	if u, ok := b.(Unknown); ok {
		ex.incon("comparison on unknown value: %s", u.why)
	}
	if p, ok := b.(*Value); ok && p == nil {
		return c.Bool(isNilRef(a))
	}
	ex.incon("eq: unsupported operands %T vs %T", a, b)
	return nil
}

func isNilRef(v Value) bool {
	switch v := v.(type) {
	case nil:
		return true
	case *Value:
		return v == nil
	case *MapV:
		return v == nil
	case SliceV:
		return v == nil
	case *Closure:
		return v == nil
	case *ChanV:
		return v == nil
	case Iface:
		return v.t == nil
	case *ssa.Function:
		return v == nil
	}
	return false
}

func (ex *Exec) strEq(a, b Str) *Term {
	c := ex.ctx
	if a.isConcrete() && b.isConcrete() {
		return c.Bool(a.s == b.s)
	}
	if a.opaque || b.opaque {
		if a.opaque && b.opaque && a.s == b.s {
			return c.tTrue
		}
		ex.incon("comparison on opaque (formatted) string %q / %q", a.s, b.s)
	}
	if a.length() != b.length() {
		return c.tFalse
	}
	ab, bb := ex.strBytes(a), ex.strBytes(b)
	var parts []*Term
	for i := range ab {
		parts = append(parts, c.Eq(ab[i], bb[i]))
	}
	return c.And(parts...)
}

// lexicographic a < b
func (ex *Exec) strLt(a, b Str) *Term {
	c := ex.ctx
	if a.isConcrete() && b.isConcrete() {
		return c.Bool(a.s < b.s)
	}
	ab, bb := ex.strBytes(a), ex.strBytes(b)
	n := len(ab)
	if len(bb) < n {
		n = len(bb)
	}
	// result = exists i: prefix equal and a[i]<b[i]; or prefix(all n) equal and len(a)<len(b)
	res := c.Bool(len(ab) < len(bb))
	for i := n - 1; i >= 0; i-- {
		res = c.Ite(c.Lt(ab[i], bb[i]), c.tTrue, c.Ite(c.Eq(ab[i], bb[i]), res, c.tFalse))
	}
	return res
}

func bigOf(v int64) *big.Int { return big.NewInt(v) }

// describe value for diagnostics
func showVal(v Value) string {
	switch v := v.(type) {
	case *Term:
		return v.String()
	case Str:
		if v.sym != nil {
			return fmt.Sprintf("symstr[%d]", len(v.sym))
		}
		return fmt.Sprintf("%q", v.s)
	case Struct:
		var parts []string
		for _, f := range v {
			parts = append(parts, showVal(f))
		}
		return "{" + strings.Join(parts, ",") + "}"
	case Iface:
		if v.t == nil {
			return "nil-iface"
		}
		return "iface(" + v.t.String() + ")"
	case BigVal:
		return "big(" + v.t.String() + ")"
	}
	return fmt.Sprintf("%T", v)
}
