package main

// Model of math/big.Int as an abstract mathematical integer. The cell behind a *big.Int holds BigVal{term};
// the Go zero value (Struct{false,nil}) is read as 0. cosmossdk.io/math.Int and LegacyDec run as real code on top.

import (
	"math/big"
	"strings"

	"golang.org/x/tools/go/ssa"
)

func (ex *Exec) bigGet(v Value, what string) *Term {
	p, ok := v.(*Value)
	if !ok {
		if u, isu := v.(Unknown); isu {
			panic(unknownUse{u})
		}
		ex.incon("big.Int model: unexpected receiver %T in %s", v, what)
	}
	if p == nil {
		panic(goPanic{msg: "nil *big.Int dereference in " + what})
	}
	switch c := (*p).(type) {
	case BigVal:
		return c.t
	case Struct:
		return ex.ctx.Int(0)
	case Unknown:
		panic(unknownUse{c})
	}
	ex.incon("big.Int model: unexpected cell %T in %s", *p, what)
	return nil
}

func (ex *Exec) bigSet(v Value, t *Term) Value {
	p := v.(*Value)
	if p == nil {
		panic(goPanic{msg: "nil *big.Int receiver"})
	}
	*p = BigVal{t}
	return p
}

func (ex *Exec) newBig(t *Term) *Value {
	p := new(Value)
	*p = BigVal{t}
	return p
}

func (ex *Exec) absT(t *Term) *Term {
	return ex.absPC(t)
}

func (ex *Exec) absTStatic(t *Term) *Term {
	c := ex.ctx
	if t.lo != nil && t.lo.Sign() >= 0 {
		return t
	}
	return c.Ite(c.Ge(t, c.Int(0)), t, c.Neg(t))
}

func init() {
	B := "(*math/big.Int)."
	models["math/big.NewInt"] = func(ex *Exec, fn *ssa.Function, args []Value) Value {
		return ex.newBig(ex.asTerm(args[0], "big.NewInt"))
	}
	bin := func(f func(ex *Exec, a, b *Term) *Term) Model {
		return func(ex *Exec, fn *ssa.Function, args []Value) Value {
			a := ex.bigGet(args[1], fn.Name())
			b := ex.bigGet(args[2], fn.Name())
			return ex.bigSet(args[0], f(ex, a, b))
		}
	}
	models[B+"Add"] = bin(func(ex *Exec, a, b *Term) *Term { return ex.ctx.Add(a, b) })
	models[B+"Sub"] = bin(func(ex *Exec, a, b *Term) *Term { return ex.ctx.Sub(a, b) })
	models[B+"Mul"] = bin(func(ex *Exec, a, b *Term) *Term { return ex.ctx.Mul(a, b) })
	divz := func(ex *Exec, b *Term) {
		ex.mustHold(ex.ctx.Not(ex.ctx.Eq(b, ex.ctx.Int(0))), "division by zero (big.Int)")
	}
	models[B+"Quo"] = bin(func(ex *Exec, a, b *Term) *Term { divz(ex, b); return ex.truncDiv(a, b) })
	models[B+"Rem"] = bin(func(ex *Exec, a, b *Term) *Term { divz(ex, b); return ex.truncRem(a, b) })
	models[B+"Div"] = bin(func(ex *Exec, a, b *Term) *Term { divz(ex, b); return ex.ctx.DivE(a, b) })
	models[B+"Mod"] = bin(func(ex *Exec, a, b *Term) *Term { divz(ex, b); return ex.ctx.ModE(a, b) })
	models[B+"QuoRem"] = func(ex *Exec, fn *ssa.Function, args []Value) Value {
		a := ex.bigGet(args[1], "QuoRem")
		b := ex.bigGet(args[2], "QuoRem")
		divz(ex, b)
		q, r := ex.truncDiv(a, b), ex.truncRem(a, b)
		ex.bigSet(args[0], q)
		ex.bigSet(args[3], r)
		return Tuple{args[0], args[3]}
	}
	models[B+"DivMod"] = func(ex *Exec, fn *ssa.Function, args []Value) Value {
		a := ex.bigGet(args[1], "DivMod")
		b := ex.bigGet(args[2], "DivMod")
		divz(ex, b)
		q, r := ex.ctx.DivE(a, b), ex.ctx.ModE(a, b)
		ex.bigSet(args[0], q)
		ex.bigSet(args[3], r)
		return Tuple{args[0], args[3]}
	}
	un := func(f func(ex *Exec, a *Term) *Term) Model {
		return func(ex *Exec, fn *ssa.Function, args []Value) Value {
			a := ex.bigGet(args[1], fn.Name())
			return ex.bigSet(args[0], f(ex, a))
		}
	}
	models[B+"Set"] = un(func(ex *Exec, a *Term) *Term { return a })
	models[B+"Neg"] = un(func(ex *Exec, a *Term) *Term { return ex.ctx.Neg(a) })
	models[B+"Abs"] = un(func(ex *Exec, a *Term) *Term { return ex.absT(a) })
	models[B+"SetInt64"] = func(ex *Exec, fn *ssa.Function, args []Value) Value {
		return ex.bigSet(args[0], ex.asTerm(args[1], "SetInt64"))
	}
	models[B+"SetUint64"] = models[B+"SetInt64"]
	models[B+"Cmp"] = func(ex *Exec, fn *ssa.Function, args []Value) Value {
		c := ex.ctx
		a, b := ex.bigGet(args[0], "Cmp"), ex.bigGet(args[1], "Cmp")
		return c.Ite(c.Lt(a, b), c.Int(-1), c.Ite(c.Eq(a, b), c.Int(0), c.Int(1)))
	}
	models[B+"CmpAbs"] = func(ex *Exec, fn *ssa.Function, args []Value) Value {
		c := ex.ctx
		a, b := ex.absT(ex.bigGet(args[0], "CmpAbs")), ex.absT(ex.bigGet(args[1], "CmpAbs"))
		return c.Ite(c.Lt(a, b), c.Int(-1), c.Ite(c.Eq(a, b), c.Int(0), c.Int(1)))
	}
	models[B+"Sign"] = func(ex *Exec, fn *ssa.Function, args []Value) Value {
		c := ex.ctx
		a := ex.bigGet(args[0], "Sign")
		return c.Ite(c.Lt(a, c.Int(0)), c.Int(-1), c.Ite(c.Eq(a, c.Int(0)), c.Int(0), c.Int(1)))
	}
	models[B+"Int64"] = func(ex *Exec, fn *ssa.Function, args []Value) Value {
		return ex.wrap(ex.bigGet(args[0], "Int64"), 64, true)
	}
	models[B+"Uint64"] = func(ex *Exec, fn *ssa.Function, args []Value) Value {
		return ex.wrap(ex.bigGet(args[0], "Uint64"), 64, false)
	}
	models[B+"IsInt64"] = func(ex *Exec, fn *ssa.Function, args []Value) Value {
		c := ex.ctx
		a := ex.bigGet(args[0], "IsInt64")
		return c.And(c.Ge(a, c.IntBig(new(big.Int).Neg(pow2(63)))), c.Lt(a, c.IntBig(pow2(63))))
	}
	models[B+"IsUint64"] = func(ex *Exec, fn *ssa.Function, args []Value) Value {
		c := ex.ctx
		a := ex.bigGet(args[0], "IsUint64")
		return c.And(c.Ge(a, c.Int(0)), c.Lt(a, c.IntBig(pow2(64))))
	}
	models[B+"BitLen"] = func(ex *Exec, fn *ssa.Function, args []Value) Value {
		c := ex.ctx
		a := ex.absT(ex.bigGet(args[0], "BitLen"))
		if a.isConst {
			return c.Int(int64(a.cInt.BitLen()))
		}
		// exact with respect to the thresholds compared against in cosmossdk.io/math (255/256 Int, 315 Dec)
		ths := []uint{64, 255, 256, 257, 314, 315, 316}
		res := c.Int(4096)
		for i := len(ths) - 1; i >= 0; i-- {
			res = c.Ite(c.Lt(a, c.IntBig(pow2(ths[i]))), c.Int(int64(ths[i])), res)
		}
		return res
	}
	models[B+"Exp"] = func(ex *Exec, fn *ssa.Function, args []Value) Value {
		x := ex.bigGet(args[1], "Exp")
		y := ex.bigGet(args[2], "Exp")
		if mp, ok := args[3].(*Value); ok && mp != nil {
			ex.incon("big.Int.Exp with modulus")
		}
		if !y.isConst || !y.cInt.IsInt64() || y.cInt.Int64() > 512 {
			ex.incon("big.Int.Exp with symbolic or huge exponent")
		}
		n := y.cInt.Int64()
		res := ex.ctx.Int(1)
		for i := int64(0); i < n; i++ {
			res = ex.ctx.Mul(res, x)
		}
		return ex.bigSet(args[0], res)
	}
	models[B+"Lsh"] = func(ex *Exec, fn *ssa.Function, args []Value) Value {
		x := ex.bigGet(args[1], "Lsh")
		n := ex.concreteInt(args[2], "Lsh amount")
		return ex.bigSet(args[0], ex.ctx.Mul(x, ex.ctx.IntBig(pow2(uint(n)))))
	}
	models[B+"Rsh"] = func(ex *Exec, fn *ssa.Function, args []Value) Value {
		x := ex.bigGet(args[1], "Rsh")
		n := ex.concreteInt(args[2], "Rsh amount")
		return ex.bigSet(args[0], ex.ctx.DivE(x, ex.ctx.IntBig(pow2(uint(n)))))
	}
	models[B+"SetString"] = func(ex *Exec, fn *ssa.Function, args []Value) Value {
		s := args[1].(Str)
		if !s.isConcrete() {
			ex.incon("big.Int.SetString of symbolic string")
		}
		base := ex.concreteInt(args[2], "base")
		v, ok := new(big.Int).SetString(s.s, base)
		if !ok {
			return Tuple{(*Value)(nil), ex.ctx.tFalse}
		}
		return Tuple{ex.bigSet(args[0], ex.ctx.IntBig(v)), ex.ctx.tTrue}
	}
	str := func(ex *Exec, fn *ssa.Function, args []Value) Value {
		p := args[0].(*Value)
		if p == nil {
			return Str{s: "<nil>"}
		}
		a := ex.bigGet(args[0], "String")
		if a.isConst {
			return Str{s: a.cInt.String()}
		}
		return ex.opaqueStr("bigint")
	}
	models[B+"String"] = str
	models[B+"Text"] = str
	models[B+"Sqrt"] = func(ex *Exec, fn *ssa.Function, args []Value) Value {
		c := ex.ctx
		x := ex.bigGet(args[1], "Sqrt")
		ex.mustHold(c.Ge(x, c.Int(0)), "square root of negative number")
		r := ex.ndInt("bigsqrt", big.NewInt(0), nil)
		ex.assume(c.And(c.Le(c.Mul(r, r), x), c.Lt(x, c.Mul(c.Add(r, c.Int(1)), c.Add(r, c.Int(1))))))
		return ex.bigSet(args[0], r)
	}
	// Bits: only the word count is meaningful (cosmossdk.io/math compares it with 256/wordsize); contents are poisoned.
	models[B+"Bits"] = func(ex *Exec, fn *ssa.Function, args []Value) Value {
		c := ex.ctx
		a := ex.absT(ex.bigGet(args[0], "Bits"))
		n := 5
		if ex.branch(c.Lt(a, c.IntBig(pow2(256)))) {
			n = 4
			if a.isConst {
				n = (a.cInt.BitLen() + 63) / 64
			}
		}
		out := make(SliceV, n)
		for i := range out {
			out[i] = Unknown{"content of big.Int.Bits()"}
		}
		return out
	}
	models[B+"MarshalText"] = func(ex *Exec, fn *ssa.Function, args []Value) Value {
		ex.incon("big.Int marshalling reached (codec is outside the encoding)")
		return nil
	}
}

func init() {
	old := prefixModelHook
	prefixModelHook = func(key string) Model {
		if strings.HasPrefix(key, "(*math/big.Int).") {
			return func(ex *Exec, fn *ssa.Function, args []Value) Value {
				ex.incon("unmodelled big.Int method %s", key)
				return nil
			}
		}
		if old != nil {
			return old(key)
		}
		return nil
	}
}

// cosmossdk.io/math decimal rounding leaves as fork-free terms (the library code branches on the sign, on a zero
// remainder, on the comparison with one half and on the parity of the quotient: 4-5 paths per rounding, which
// multiplies through every Dec operation of a harness).  Same function: banker's rounding of d / 10^18, symmetric in
// the sign, result stored in d and returned.  Validated against the library by the native replays of the harnesses
// that use it and by selftest/declib.
func init() {
	prec := new(big.Int).Exp(big.NewInt(10), big.NewInt(18), nil)
	half := new(big.Int).Div(prec, big.NewInt(2))
	round := func(ex *Exec, d *Term, up func(q, r *Term) *Term) *Term {
		c := ex.ctx
		a := ex.absT(d)
		q := c.DivE(a, c.IntBig(prec))
		r := c.ModE(a, c.IntBig(prec))
		res := c.Add(q, c.Ite(up(q, r), c.Int(1), c.Int(0)))
		if ex.knownNonNeg(d) {
			return res
		}
		return c.Ite(c.Ge(d, c.Int(0)), res, c.Neg(res))
	}
	models["cosmossdk.io/math.chopPrecisionAndRound"] = func(ex *Exec, fn *ssa.Function, args []Value) Value {
		c := ex.ctx
		d := ex.bigGet(args[0], "chopPrecisionAndRound")
		if d.isConst {
			// concrete: exact library semantics on the constant
			neg := d.cInt.Sign() < 0
			a := new(big.Int).Abs(d.cInt)
			q, r := new(big.Int).QuoRem(a, prec, new(big.Int))
			if cmp := r.Cmp(half); cmp > 0 || (cmp == 0 && q.Bit(0) == 1) {
				q.Add(q, big.NewInt(1))
			}
			if neg {
				q.Neg(q)
			}
			return ex.bigSet(args[0], c.IntBig(q))
		}
		res := round(ex, d, func(q, r *Term) *Term {
			return c.Or(c.Gt(r, c.IntBig(half)), c.And(c.Eq(r, c.IntBig(half)), c.Eq(c.ModE(q, c.Int(2)), c.Int(1))))
		})
		return ex.bigSet(args[0], res)
	}
}
