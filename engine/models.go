package main

import (
	"fmt"
	"go/types"
	"math/big"
	"sort"
	"strconv"
	"strings"

	"golang.org/x/tools/go/ssa"
)

type Model func(ex *Exec, fn *ssa.Function, args []Value) Value

var models = map[string]Model{}
var nameModels = map[string]Model{}

var prefixModelHook func(key string) Model

func prefixModel(key string) Model {
	i := strings.LastIndex(key, ".")
	name := key[i+1:]
	if strings.HasPrefix(name, "verif_") {
		if m, ok := nameModels[name]; ok {
			return m
		}
	}
	if prefixModelHook != nil {
		return prefixModelHook(key)
	}
	return nil
}

func (ex *Exec) ndKey(name string) string {
	k := ex.nondetCnt[name]
	ex.nondetCnt[name]++
	if k > 0 {
		return name + "#" + strconv.Itoa(k)
	}
	return name
}

func argStr(ex *Exec, v Value) string {
	s, ok := v.(Str)
	if !ok || !s.isConcrete() {
		ex.incon("verif_* name/label argument must be a concrete string")
	}
	return s.s
}

func (ex *Exec) ndInt(name string, lo, hi *big.Int) *Term {
	return ex.ctx.Var("nd:"+ex.ndKey(name), SInt, lo, hi)
}

func u64max() *big.Int { return new(big.Int).Sub(pow2(64), big.NewInt(1)) }

func init() {
	ndRange := func(lo, hi *big.Int) Model {
		return func(ex *Exec, fn *ssa.Function, args []Value) Value {
			return ex.ndInt(argStr(ex, args[0]), lo, hi)
		}
	}
	nameModels["verif_nondet_u64"] = ndRange(big.NewInt(0), u64max())
	nameModels["verif_nondet_i64"] = ndRange(new(big.Int).Neg(pow2(63)), new(big.Int).Sub(pow2(63), big.NewInt(1)))
	nameModels["verif_nondet_int"] = nameModels["verif_nondet_i64"]
	nameModels["verif_nondet_u32"] = ndRange(big.NewInt(0), new(big.Int).Sub(pow2(32), big.NewInt(1)))
	nameModels["verif_nondet_i32"] = ndRange(new(big.Int).Neg(pow2(31)), new(big.Int).Sub(pow2(31), big.NewInt(1)))
	nameModels["verif_nondet_byte"] = ndRange(big.NewInt(0), big.NewInt(255))
	nameModels["verif_nondet_bool"] = func(ex *Exec, fn *ssa.Function, args []Value) Value {
		return ex.ctx.Var("nd:"+ex.ndKey(argStr(ex, args[0])), SBool, nil, nil)
	}
	// forking choice in [lo,hi]
	nameModels["verif_nondet_range"] = func(ex *Exec, fn *ssa.Function, args []Value) Value {
		name := ex.ndKey(argStr(ex, args[0]))
		lo := ex.concreteInt(args[1], "range lo")
		hi := ex.concreteInt(args[2], "range hi")
		if hi < lo {
			panic(pathEnd{"empty range"})
		}
		i := ex.choose(make([]*Term, hi-lo+1))
		ex.concrete[name] = strconv.Itoa(lo + i)
		return ex.ctx.Int(int64(lo + i))
	}
	// symbolic (non-forking) value in [lo,hi]
	nameModels["verif_nondet_in"] = func(ex *Exec, fn *ssa.Function, args []Value) Value {
		lo := ex.asTerm(args[1], "lo")
		hi := ex.asTerm(args[2], "hi")
		if !lo.isConst || !hi.isConst {
			ex.incon("verif_nondet_in bounds must be concrete")
		}
		return ex.ndInt(argStr(ex, args[0]), lo.cInt, hi.cInt)
	}
	nameModels["verif_nondet_bytes"] = func(ex *Exec, fn *ssa.Function, args []Value) Value {
		base := argStr(ex, args[0])
		n := ex.concreteInt(args[1], "bytes length")
		out := make(SliceV, n)
		for i := 0; i < n; i++ {
			out[i] = ex.ndInt(fmt.Sprintf("%s[%d]", base, i), big.NewInt(0), big.NewInt(255))
		}
		return out
	}
	nameModels["verif_nondet_string"] = func(ex *Exec, fn *ssa.Function, args []Value) Value {
		base := argStr(ex, args[0])
		n := ex.concreteInt(args[1], "string length")
		bs := make([]*Term, n)
		for i := 0; i < n; i++ {
			bs[i] = ex.ndInt(fmt.Sprintf("%s[%d]", base, i), big.NewInt(0), big.NewInt(255))
		}
		return ex.mkStr(bs)
	}
	nameModels["verif_nondet_big"] = func(ex *Exec, fn *ssa.Function, args []Value) Value {
		p := new(Value)
		*p = BigVal{ex.ndInt(argStr(ex, args[0]), nil, nil)}
		return p
	}
	// non-negative big integer below 2^bits
	nameModels["verif_nondet_ubig"] = func(ex *Exec, fn *ssa.Function, args []Value) Value {
		bits := ex.concreteInt(args[1], "ubig bits")
		p := new(Value)
		*p = BigVal{ex.ndInt(argStr(ex, args[0]), big.NewInt(0), new(big.Int).Sub(pow2(uint(bits)), big.NewInt(1)))}
		return p
	}
	nameModels["verif_assume"] =func(ex *Exec, fn *ssa.Function, args []Value) Value {
		ex.assume(ex.asTerm(args[0], "assume"))
		return nil
	}
	nameModels["verif_assert"] = func(ex *Exec, fn *ssa.Function, args []Value) Value {
		label := argStr(ex, args[0])
		cond := ex.asTerm(args[1], "assert")
		ex.reportViolation("assert", label, cond, "")
		// continue under the assumption that the assertion held
		ex.assume(cond)
		return nil
	}
	nameModels["verif_reach"] = func(ex *Exec, fn *ssa.Function, args []Value) Value {
		ex.reach(argStr(ex, args[0]))
		return nil
	}
	nameModels["verif_known"] = func(ex *Exec, fn *ssa.Function, args []Value) Value {
		ex.known[argStr(ex, args[0])] = ex.asTerm(args[1], "known region")
		return nil
	}
	nameModels["verif_observe"] = func(ex *Exec, fn *ssa.Function, args []Value) Value {
		v := args[1]
		if i, ok := v.(Iface); ok {
			v = i.v
		}
		ex.observed[argStr(ex, args[0])] = v
		return nil
	}
	nameModels["verif_param"] = func(ex *Exec, fn *ssa.Function, args []Value) Value {
		name := argStr(ex, args[0])
		if v, ok := ex.cfg.Params[name]; ok {
			ex.concrete["param:"+name] = strconv.Itoa(v)
			return ex.ctx.Int(int64(v))
		}
		d := ex.concreteInt(args[1], "param default")
		ex.concrete["param:"+name] = strconv.Itoa(d)
		return ex.ctx.Int(int64(d))
	}
	nameModels["verif_snapshot"] = func(ex *Exec, fn *ssa.Function, args []Value) Value {
		return ex.deepCopy(args[0], map[*Value]*Value{})
	}
	nameModels["verif_same"] = func(ex *Exec, fn *ssa.Function, args []Value) Value {
		return ex.deepEq(args[0], args[1], 0)
	}
	// codec model: verif_box(ptr) files a deep copy of *ptr and returns a 3-byte token; verif_unbox(token, ptr) assigns a
	// deep copy of the filed value to *ptr (Marshal/Unmarshal as box/unbox; the wire encoding is outside the claim)
	nameModels["verif_box"] = func(ex *Exec, fn *ssa.Function, args []Value) Value {
		v := args[0]
		if i, ok := v.(Iface); ok {
			v = i.v
		}
		p, ok := v.(*Value)
		if !ok || p == nil {
			ex.incon("verif_box: argument must be a non-nil pointer (%T)", v)
		}
		ex.boxes = append(ex.boxes, ex.deepCopy(*p, map[*Value]*Value{}))
		id := len(ex.boxes) - 1
		return SliceV{ex.ctx.Int(0xB0), ex.ctx.Int(int64(id >> 8)), ex.ctx.Int(int64(id & 255))}
	}
	nameModels["verif_unbox"] = func(ex *Exec, fn *ssa.Function, args []Value) Value {
		bz, ok := args[0].(SliceV)
		if !ok || len(bz) != 3 {
			ex.incon("verif_unbox: not a box token (%T len %d)", args[0], len(bz))
		}
		var id int64
		for i, b := range bz {
			t, ok := b.(*Term)
			if !ok || !t.isConst {
				ex.incon("verif_unbox: symbolic token byte")
			}
			if i > 0 {
				id = id<<8 | t.cInt.Int64()
			} else if t.cInt.Int64() != 0xB0 {
				ex.incon("verif_unbox: not a box token")
			}
		}
		if id < 0 || int(id) >= len(ex.boxes) {
			ex.incon("verif_unbox: unknown token %d", id)
		}
		v := args[1]
		if i, ok := v.(Iface); ok {
			v = i.v
		}
		p, ok := v.(*Value)
		if !ok || p == nil {
			ex.incon("verif_unbox: destination must be a non-nil pointer (%T)", v)
		}
		*p = ex.deepCopy(ex.boxes[id], map[*Value]*Value{})
		if i, ok := args[1].(Iface); ok && i.t != nil {
			if pt, ok := i.t.Underlying().(*types.Pointer); ok {
				*p = ex.normDecoded(*p, pt.Elem(), 0)
			}
		}
		return nil
	}
	// map iteration order schemes for determinism harnesses (see Exec.flipMode)
	nameModels["verif_maporder"] = func(ex *Exec, fn *ssa.Function, args []Value) Value {
		ex.flipMode = ex.concreteInt(args[0], "verif_maporder mode")
		ex.flipSite = ex.concreteInt(args[1], "verif_maporder site")
		ex.mapRangeCount = 0
		return nil
	}
	nameModels["verif_maprange_count"] = func(ex *Exec, fn *ssa.Function, args []Value) Value {
		return ex.ctx.Int(int64(ex.mapRangeCount))
	}
	nameModels["verif_symbolic"] = func(ex *Exec, fn *ssa.Function, args []Value) Value {
		return ex.ctx.tTrue
	}

	// ---- fmt / errors / strconv ----
	models["fmt.Sprintf"] = func(ex *Exec, fn *ssa.Function, args []Value) Value {
		return ex.formatModel(args[0].(Str), args[1].(SliceV))
	}
	// fmt.Sscanf on a concrete input with string / integer destinations (key recovery such as "%s %s")
	models["fmt.Sscanf"] = func(ex *Exec, fn *ssa.Function, args []Value) Value {
		in, format := args[0].(Str), args[1].(Str)
		if !in.isConcrete() || !format.isConcrete() {
			ex.incon("fmt.Sscanf on a symbolic string")
		}
		dsts := args[2].(SliceV)
		nat := make([]interface{}, len(dsts))
		for i, d := range dsts {
			di, ok := d.(Iface)
			if !ok || di.t == nil {
				ex.incon("fmt.Sscanf: destination %d is not a pointer", i)
			}
			pt, ok := di.t.Underlying().(*types.Pointer)
			if !ok {
				ex.incon("fmt.Sscanf: destination %d is not a pointer", i)
			}
			switch b := pt.Elem().Underlying().(type) {
			case *types.Basic:
				switch {
				case b.Kind() == types.String:
					nat[i] = new(string)
				case b.Info()&types.IsUnsigned != 0:
					nat[i] = new(uint64)
				case b.Info()&types.IsInteger != 0:
					nat[i] = new(int64)
				default:
					ex.incon("fmt.Sscanf: destination type %s not modelled", pt.Elem())
				}
			default:
				ex.incon("fmt.Sscanf: destination type %s not modelled", pt.Elem())
			}
		}
		n, err := fmt.Sscanf(in.s, format.s, nat...)
		for i, d := range dsts {
			if i >= n {
				break
			}
			p := d.(Iface).v.(*Value)
			switch v := nat[i].(type) {
			case *string:
				*p = Str{s: *v}
			case *uint64:
				*p = ex.ctx.IntBig(new(big.Int).SetUint64(*v))
			case *int64:
				*p = ex.ctx.Int(*v)
			}
		}
		var e Value = Iface{}
		if err != nil {
			e = ex.newErr(Str{s: err.Error()})
		}
		return Tuple{ex.ctx.Int(int64(n)), e}
	}
	models["fmt.Sprint"] = func(ex *Exec, fn *ssa.Function, args []Value) Value {
		return ex.formatModel(Str{s: strings.Repeat("%v", len(args[0].(SliceV)))}, args[0].(SliceV))
	}
	models["fmt.Sprintln"] = models["fmt.Sprint"]
	models["fmt.Errorf"] = func(ex *Exec, fn *ssa.Function, args []Value) Value {
		format := args[0].(Str)
		msg := ex.formatModel(format, args[1].(SliceV))
		if strings.Contains(format.s, "%w") {
			for _, a := range args[1].(SliceV) {
				if i, ok := a.(Iface); ok && i.t != nil && ex.isErrorType(i.t) {
					return ex.wrapErr(msg, i)
				}
			}
		}
		return ex.newErr(msg)
	}
	for _, n := range []string{"fmt.Println", "fmt.Printf", "fmt.Print", "fmt.Fprintf", "fmt.Fprintln", "fmt.Fprint", "log.Printf", "log.Println", "log.Print"} {
		models[n] = func(ex *Exec, fn *ssa.Function, args []Value) Value {
			if fn.Signature.Results().Len() == 2 {
				return Tuple{ex.ctx.Int(0), Iface{}}
			}
			return nil
		}
	}
	models["errors.Is"] = func(ex *Exec, fn *ssa.Function, args []Value) Value {
		return ex.ctx.Bool(ex.errorsIs(args[0], args[1]))
	}
	models["errors.Unwrap"] = func(ex *Exec, fn *ssa.Function, args []Value) Value {
		if n := ex.unwrapErr(args[0]); n != nil {
			return n
		}
		return Iface{}
	}
	models["strconv.Itoa"] = func(ex *Exec, fn *ssa.Function, args []Value) Value {
		t := ex.asTerm(args[0], "Itoa")
		if t.isConst {
			return Str{s: t.cInt.String()}
		}
		return ex.opaqueStr("itoa")
	}
	models["strconv.FormatInt"] = func(ex *Exec, fn *ssa.Function, args []Value) Value {
		t := ex.asTerm(args[0], "FormatInt")
		b := ex.asTerm(args[1], "base")
		if t.isConst && b.isConst {
			return Str{s: t.cInt.Text(int(b.cInt.Int64()))}
		}
		return ex.opaqueStr("formatint")
	}
	models["strconv.FormatUint"] = models["strconv.FormatInt"]
	models["strconv.FormatBool"] = func(ex *Exec, fn *ssa.Function, args []Value) Value {
		t := ex.asTerm(args[0], "FormatBool")
		if t.isConst {
			return Str{s: strconv.FormatBool(t.cBool)}
		}
		return ex.opaqueStr("formatbool")
	}
	parseInt := func(unsigned bool) Model {
		return func(ex *Exec, fn *ssa.Function, args []Value) Value {
			s := args[0].(Str)
			if !s.isConcrete() {
				ex.incon("strconv.Parse* of symbolic string")
			}
			base, bits := 10, 64
			if len(args) > 1 {
				base = ex.concreteInt(args[1], "base")
				bits = ex.concreteInt(args[2], "bits")
			}
			if unsigned {
				v, err := strconv.ParseUint(s.s, base, bits)
				if err != nil {
					return Tuple{ex.ctx.Uint(v), ex.newErr(Str{s: err.Error()})}
				}
				return Tuple{ex.ctx.Uint(v), Iface{}}
			}
			v, err := strconv.ParseInt(s.s, base, bits)
			if err != nil {
				return Tuple{ex.ctx.Int(v), ex.newErr(Str{s: err.Error()})}
			}
			return Tuple{ex.ctx.Int(v), Iface{}}
		}
	}
	models["strconv.ParseInt"] = parseInt(false)
	models["strconv.ParseUint"] = parseInt(true)
	models["strconv.Atoi"] = func(ex *Exec, fn *ssa.Function, args []Value) Value {
		s := args[0].(Str)
		if !s.isConcrete() {
			ex.incon("strconv.Atoi of symbolic string")
		}
		v, err := strconv.Atoi(s.s)
		if err != nil {
			return Tuple{ex.ctx.Int(int64(v)), ex.newErr(Str{s: err.Error()})}
		}
		return Tuple{ex.ctx.Int(int64(v)), Iface{}}
	}

	// ---- strings / bytes ----
	models["strings.Join"] = func(ex *Exec, fn *ssa.Function, args []Value) Value {
		elems := args[0].(SliceV)
		sep := args[1].(Str)
		res := Str{}
		for i, e := range elems {
			if i > 0 {
				res = ex.concat(res, sep)
			}
			res = ex.concat(res, e.(Str))
		}
		return res
	}
	models["bytes.Join"] = func(ex *Exec, fn *ssa.Function, args []Value) Value {
		elems := args[0].(SliceV)
		sep := args[1].(SliceV)
		out := SliceV{}
		for i, e := range elems {
			if i > 0 {
				out = append(out, sep...)
			}
			out = append(out, e.(SliceV)...)
		}
		return out
	}
	models["bytes.Equal"] = func(ex *Exec, fn *ssa.Function, args []Value) Value {
		a, b := args[0].(SliceV), args[1].(SliceV)
		if len(a) != len(b) {
			return ex.ctx.tFalse
		}
		var parts []*Term
		for i := range a {
			parts = append(parts, ex.ctx.Eq(a[i].(*Term), b[i].(*Term)))
		}
		return ex.ctx.And(parts...)
	}
	bytesCompare := func(ex *Exec, fn *ssa.Function, args []Value) Value {
		a, b := args[0].(SliceV), args[1].(SliceV)
		c := ex.ctx
		n := len(a)
		if len(b) < n {
			n = len(b)
		}
		var res *Term
		switch {
		case len(a) < len(b):
			res = c.Int(-1)
		case len(a) > len(b):
			res = c.Int(1)
		default:
			res = c.Int(0)
		}
		for i := n - 1; i >= 0; i-- {
			x, y := a[i].(*Term), b[i].(*Term)
			res = c.Ite(c.Lt(x, y), c.Int(-1), c.Ite(c.Lt(y, x), c.Int(1), res))
		}
		return res
	}
	models["bytes.Compare"] = bytesCompare
	models["internal/bytealg.Compare"] = bytesCompare
	bytesIndexByte := func(ex *Exec, fn *ssa.Function, args []Value) Value {
		a := args[0].(SliceV)
		ch := ex.asTerm(args[1], "IndexByte")
		c := ex.ctx
		res := c.Int(-1)
		for i := len(a) - 1; i >= 0; i-- {
			res = c.Ite(c.Eq(a[i].(*Term), ch), c.Int(int64(i)), res)
		}
		return res
	}
	models["bytes.IndexByte"] = bytesIndexByte
	models["internal/bytealg.IndexByte"] = bytesIndexByte
	str1 := func(f func(string) string) Model {
		return func(ex *Exec, fn *ssa.Function, args []Value) Value {
			s := args[0].(Str)
			if !s.isConcrete() {
				ex.incon("%s of symbolic string", fn)
			}
			return Str{s: f(s.s)}
		}
	}
	models["strings.ToLower"] = str1(strings.ToLower)
	models["strings.ToUpper"] = str1(strings.ToUpper)
	models["strings.TrimSpace"] = str1(strings.TrimSpace)
	models["strings.Title"] = str1(strings.Title)
	str2b := func(f func(a, b string) bool) Model {
		return func(ex *Exec, fn *ssa.Function, args []Value) Value {
			a, b := args[0].(Str), args[1].(Str)
			if !a.isConcrete() || !b.isConcrete() {
				if fn.Name() == "HasPrefix" || fn.Name() == "HasSuffix" {
					return ex.symPrefix(a, b, fn.Name() == "HasSuffix")
				}
				ex.incon("%s of symbolic string", fn)
			}
			return ex.ctx.Bool(f(a.s, b.s))
		}
	}
	models["strings.Contains"] = str2b(strings.Contains)
	models["strings.HasPrefix"] = str2b(strings.HasPrefix)
	models["strings.HasSuffix"] = str2b(strings.HasSuffix)
	models["strings.EqualFold"] = str2b(strings.EqualFold)
	models["strings.ContainsAny"] = str2b(strings.ContainsAny)
	str2s := func(f func(a, b string) string) Model {
		return func(ex *Exec, fn *ssa.Function, args []Value) Value {
			a, b := args[0].(Str), args[1].(Str)
			if !a.isConcrete() || !b.isConcrete() {
				ex.incon("%s of symbolic string", fn)
			}
			return Str{s: f(a.s, b.s)}
		}
	}
	models["strings.TrimPrefix"] = str2s(strings.TrimPrefix)
	models["strings.TrimSuffix"] = str2s(strings.TrimSuffix)
	models["strings.Trim"] = str2s(strings.Trim)
	models["strings.TrimLeft"] = str2s(strings.TrimLeft)
	models["strings.TrimRight"] = str2s(strings.TrimRight)
	str2i := func(f func(a, b string) int) Model {
		return func(ex *Exec, fn *ssa.Function, args []Value) Value {
			a, b := args[0].(Str), args[1].(Str)
			if !a.isConcrete() || !b.isConcrete() {
				if fn.Name() == "Compare" {
					return ex.ctx.Ite(ex.strLt(a, b), ex.ctx.Int(-1), ex.ctx.Ite(ex.strEq(a, b), ex.ctx.Int(0), ex.ctx.Int(1)))
				}
				ex.incon("%s of symbolic string", fn)
			}
			return ex.ctx.Int(int64(f(a.s, b.s)))
		}
	}
	models["strings.Index"] = str2i(strings.Index)
	models["strings.LastIndex"] = str2i(strings.LastIndex)
	models["strings.Count"] = str2i(strings.Count)
	models["strings.Compare"] = str2i(strings.Compare)
	strSplit := func(f func(a, b string) []string) Model {
		return func(ex *Exec, fn *ssa.Function, args []Value) Value {
			a, b := args[0].(Str), args[1].(Str)
			if !a.isConcrete() || !b.isConcrete() {
				ex.incon("%s of symbolic string", fn)
			}
			parts := f(a.s, b.s)
			out := make(SliceV, len(parts))
			for i, p := range parts {
				out[i] = Str{s: p}
			}
			return out
		}
	}
	models["strings.Split"] = strSplit(strings.Split)
	models["strings.Fields"] = func(ex *Exec, fn *ssa.Function, args []Value) Value {
		a := args[0].(Str)
		if !a.isConcrete() {
			ex.incon("strings.Fields of symbolic string")
		}
		parts := strings.Fields(a.s)
		out := make(SliceV, len(parts))
		for i, p := range parts {
			out[i] = Str{s: p}
		}
		return out
	}
	models["strings.ReplaceAll"] = func(ex *Exec, fn *ssa.Function, args []Value) Value {
		a, b, c := args[0].(Str), args[1].(Str), args[2].(Str)
		if !a.isConcrete() || !b.isConcrete() || !c.isConcrete() {
			ex.incon("strings.ReplaceAll of symbolic string")
		}
		return Str{s: strings.ReplaceAll(a.s, b.s, c.s)}
	}
	models["strings.Repeat"] = func(ex *Exec, fn *ssa.Function, args []Value) Value {
		a := args[0].(Str)
		n := ex.concreteInt(args[1], "repeat count")
		res := Str{}
		for i := 0; i < n; i++ {
			res = ex.concat(res, a)
		}
		return res
	}
	models["(*strings.Builder).WriteString"] = func(ex *Exec, fn *ssa.Function, args []Value) Value {
		b := (*args[0].(*Value)).(Struct)
		buf, _ := b[1].(SliceV)
		for _, t := range ex.strBytes(args[1].(Str)) {
			buf = append(buf, t)
		}
		b[1] = buf
		return Tuple{ex.ctx.Int(int64(args[1].(Str).length())), Iface{}}
	}
	models["(*strings.Builder).WriteByte"] = func(ex *Exec, fn *ssa.Function, args []Value) Value {
		b := (*args[0].(*Value)).(Struct)
		buf, _ := b[1].(SliceV)
		b[1] = append(buf, args[1])
		return Iface{}
	}
	models["(*strings.Builder).WriteRune"] = func(ex *Exec, fn *ssa.Function, args []Value) Value {
		b := (*args[0].(*Value)).(Struct)
		buf, _ := b[1].(SliceV)
		r := ex.asTerm(args[1], "rune")
		if !r.isConst {
			ex.incon("WriteRune symbolic")
		}
		s := string(rune(r.cInt.Int64()))
		for i := 0; i < len(s); i++ {
			buf = append(buf, ex.ctx.Int(int64(s[i])))
		}
		b[1] = buf
		return Tuple{ex.ctx.Int(int64(len(s))), Iface{}}
	}
	models["(*strings.Builder).String"] = func(ex *Exec, fn *ssa.Function, args []Value) Value {
		b := (*args[0].(*Value)).(Struct)
		buf, _ := b[1].(SliceV)
		bs := make([]*Term, len(buf))
		for i := range buf {
			bs[i] = buf[i].(*Term)
		}
		return ex.mkStr(bs)
	}
	models["(*strings.Builder).Len"] = func(ex *Exec, fn *ssa.Function, args []Value) Value {
		b := (*args[0].(*Value)).(Struct)
		buf, _ := b[1].(SliceV)
		return ex.ctx.Int(int64(len(buf)))
	}
	models["(*strings.Builder).Grow"] = func(ex *Exec, fn *ssa.Function, args []Value) Value { return nil }
	models["(*strings.Builder).Reset"] = func(ex *Exec, fn *ssa.Function, args []Value) Value {
		b := (*args[0].(*Value)).(Struct)
		b[1] = SliceV(nil)
		return nil
	}

	// ---- sort ----
	models["sort.Slice"] = sortSliceModel
	models["sort.SliceStable"] = sortSliceModel
	models["sort.Strings"] = func(ex *Exec, fn *ssa.Function, args []Value) Value {
		s := args[0].(SliceV)
		ex.insertionSort(len(s), func(i, j int) bool {
			return ex.branch(ex.strLt(s[i].(Str), s[j].(Str)))
		}, func(i, j int) { s[i], s[j] = s[j], s[i] })
		return nil
	}
	models["sort.Ints"] = func(ex *Exec, fn *ssa.Function, args []Value) Value {
		s := args[0].(SliceV)
		ex.insertionSort(len(s), func(i, j int) bool {
			return ex.branch(ex.ctx.Lt(s[i].(*Term), s[j].(*Term)))
		}, func(i, j int) { s[i], s[j] = s[j], s[i] })
		return nil
	}
	models["slices.SortFunc"] = sortFuncModel
	models["slices.SortStableFunc"] = sortFuncModel
	models["golang.org/x/exp/slices.SortFunc"] = sortFuncModel
	models["golang.org/x/exp/slices.SortStableFunc"] = sortFuncModel
	models["slices.Sort"] = sortOrderedModel
	models["golang.org/x/exp/slices.Sort"] = sortOrderedModel
	models["sort.Sort"] = sortIfaceModel
	models["sort.Stable"] = sortIfaceModel

	// ---- sync ----
	nop := func(ex *Exec, fn *ssa.Function, args []Value) Value { return nil }
	lock := func(ex *Exec, fn *ssa.Function, args []Value) Value {
		p := args[0].(*Value)
		ex.interfere("lock")
		if ex.mutexHeld[p] > 0 && !strings.Contains(fn.Name(), "RLock") {
			panic(goPanic{msg: "deadlock: " + fn.String() + " on a mutex already held by this thread"})
		}
		ex.mutexHeld[p]++
		return nil
	}
	unlock := func(ex *Exec, fn *ssa.Function, args []Value) Value {
		p := args[0].(*Value)
		if ex.mutexHeld[p] <= 0 {
			panic(goPanic{msg: "sync: unlock of unlocked mutex (" + fn.String() + ")"})
		}
		ex.mutexHeld[p]--
		return nil
	}
	trylock := func(ex *Exec, fn *ssa.Function, args []Value) Value {
		p := args[0].(*Value)
		ex.interfere("trylock")
		if ex.mutexHeld[p] > 0 {
			return ex.ctx.tFalse
		}
		if ex.cfg.SingleThread {
			ex.mutexHeld[p]++
			return ex.ctx.tTrue
		}
		// lock may be held by another goroutine: nondeterministic outcome
		ok := ex.ctx.Var("nd:"+ex.ndKey("trylock"), SBool, nil, nil)
		if ex.branch(ok) {
			ex.mutexHeld[p]++
			return ex.ctx.tTrue
		}
		return ex.ctx.tFalse
	}
	models["(*sync.Mutex).Lock"] = lock
	models["(*sync.Mutex).Unlock"] = unlock
	models["(*sync.Mutex).TryLock"] = trylock
	models["(*sync.RWMutex).Lock"] = lock
	models["(*sync.RWMutex).Unlock"] = unlock
	models["(*sync.RWMutex).RLock"] = lock
	models["(*sync.RWMutex).RUnlock"] = unlock
	models["(*sync.RWMutex).TryLock"] = trylock
	models["(*sync.RWMutex).TryRLock"] = trylock
	models["(*sync.WaitGroup).Add"] = nop
	models["(*sync.WaitGroup).Done"] = nop
	models["(*sync.WaitGroup).Wait"] = nop
	models["(*sync.Once).Do"] = func(ex *Exec, fn *ssa.Function, args []Value) Value {
		p := args[0].(*Value)
		if ex.onceDone == nil {
			ex.onceDone = map[*Value]bool{}
		}
		if ex.onceDone[p] {
			return nil
		}
		ex.onceDone[p] = true
		ex.callValue(args[1], nil, nil)
		return nil
	}
	models["runtime/debug.Stack"] = func(ex *Exec, fn *ssa.Function, args []Value) Value { return SliceV{} }
	models["runtime.Gosched"] = nop
	models["runtime.KeepAlive"] = nop
	models["time.Sleep"] = nop
}

func (ex *Exec) interfere(kind string) {
	if ex.interfereFn == nil || ex.inInterfere {
		return
	}
	ex.inInterfere = true
	defer func() { ex.inInterfere = false }()
	ex.callFn(ex.interfereFn, nil, nil)
}

func (ex *Exec) opaqueStr(tag string) Str {
	ex.opaqueCnt++
	return Str{s: fmt.Sprintf("<%s#%d>", tag, ex.opaqueCnt), opaque: true}
}

func (ex *Exec) symPrefix(a, p Str, suffix bool) *Term {
	if a.length() < p.length() {
		return ex.ctx.tFalse
	}
	ab, pb := ex.strBytes(a), ex.strBytes(p)
	off := 0
	if suffix {
		off = len(ab) - len(pb)
	}
	var parts []*Term
	for i := range pb {
		parts = append(parts, ex.ctx.Eq(ab[off+i], pb[i]))
	}
	return ex.ctx.And(parts...)
}

// native value for formatting; ok=false when symbolic
func (ex *Exec) nativeOf(v Value) (interface{}, bool) {
	switch v := v.(type) {
	case Iface:
		if v.t == nil {
			return nil, true
		}
		return ex.nativeOf(v.v)
	case *Term:
		if !v.isConst {
			return nil, false
		}
		if v.sort == SBool {
			return v.cBool, true
		}
		if v.cInt.IsInt64() {
			return v.cInt.Int64(), true
		}
		if v.cInt.IsUint64() {
			return v.cInt.Uint64(), true
		}
		return v.cInt, true
	case Str:
		if v.isConcrete() {
			return v.s, true
		}
	case Float:
		return v.v, true
	case SliceV:
		// []byte
		bs := make([]byte, len(v))
		for i := range v {
			t, ok := v[i].(*Term)
			if !ok || !t.isConst || t.sort != SInt || !t.cInt.IsInt64() || t.cInt.Int64() > 255 || t.cInt.Int64() < 0 {
				return nil, false
			}
			bs[i] = byte(t.cInt.Int64())
		}
		return bs, true
	}
	return nil, false
}

func (ex *Exec) formatModel(format Str, args SliceV) Str {
	if format.isConcrete() {
		nat := make([]interface{}, len(args))
		all := true
		for i, a := range args {
			n, ok := ex.nativeOf(a)
			if !ok {
				all = false
				break
			}
			nat[i] = n
		}
		if all {
			return Str{s: fmt.Sprintf(format.s, nat...)}
		}
	}
	return ex.opaqueStr("fmt:" + format.s)
}

// ----- errors -----

func (ex *Exec) namedType(pkgPath, name string) types.Type {
	p := ex.prog.ImportedPackage(pkgPath)
	if p == nil {
		ex.incon("package %s not loaded (needed for %s)", pkgPath, name)
	}
	m := p.Members[name]
	if m == nil {
		ex.incon("type %s.%s not found", pkgPath, name)
	}
	return m.(*ssa.Type).Type()
}

func (ex *Exec) newErr(msg Str) Iface {
	t := types.NewPointer(ex.namedType("errors", "errorString"))
	p := new(Value)
	*p = Struct{msg}
	return Iface{t: t, v: p}
}

func (ex *Exec) wrapErr(msg Str, inner Iface) Iface {
	t := types.NewPointer(ex.namedType("fmt", "wrapError"))
	p := new(Value)
	*p = Struct{msg, inner}
	return Iface{t: t, v: p}
}

func (ex *Exec) isErrorType(t types.Type) bool {
	errT := types.Universe.Lookup("error").Type().Underlying().(*types.Interface)
	return types.Implements(t, errT)
}

func (ex *Exec) unwrapErr(e Value) Value {
	i, ok := e.(Iface)
	if !ok || i.t == nil {
		return nil
	}
	ts := i.t.String()
	p, isp := i.v.(*Value)
	switch ts {
	case "*fmt.wrapError":
		if isp && p != nil {
			return (*p).(Struct)[1]
		}
	case "*cosmossdk.io/errors.wrappedError":
		if isp && p != nil {
			return (*p).(Struct)[0]
		}
	}
	return nil
}

func (ex *Exec) errorsIs(err, target Value) bool {
	for depth := 0; depth < 50; depth++ {
		ei, ok := err.(Iface)
		if !ok || ei.t == nil {
			ti, _ := target.(Iface)
			return ti.t == nil && (!ok || ei.t == nil)
		}
		ti, _ := target.(Iface)
		if ti.t != nil && types.Identical(ei.t, ti.t) {
			c := ex.eq(ei, ti)
			if c.isConst && c.cBool {
				return true
			}
			// registered sdk errors: compare codespace/code
			if ei.t.String() == "*cosmossdk.io/errors.Error" {
				a, b := ei.v.(*Value), ti.v.(*Value)
				if a != nil && b != nil {
					sa, sb := (*a).(Struct), (*b).(Struct)
					ce := ex.ctx.And(ex.eq(sa[0], sb[0]), ex.eq(sa[1], sb[1]))
					if ce.isConst && ce.cBool {
						return true
					}
				}
			}
		}
		n := ex.unwrapErr(err)
		if n == nil {
			return false
		}
		err = n
	}
	return false
}

// ----- sorting -----

func (ex *Exec) insertionSort(n int, less func(i, j int) bool, swap func(i, j int)) {
	for i := 1; i < n; i++ {
		for j := i; j > 0 && less(j, j-1); j-- {
			swap(j, j-1)
		}
	}
}

func sortSliceModel(ex *Exec, fn *ssa.Function, args []Value) Value {
	si := args[0].(Iface)
	s, _ := si.v.(SliceV)
	lessFn := args[1]
	ex.insertionSort(len(s), func(i, j int) bool {
		r := ex.callValue(lessFn, []Value{ex.ctx.Int(int64(i)), ex.ctx.Int(int64(j))}, nil)
		return ex.branch(r.(*Term))
	}, func(i, j int) { s[i], s[j] = s[j], s[i] })
	return nil
}

func sortFuncModel(ex *Exec, fn *ssa.Function, args []Value) Value {
	s, _ := args[0].(SliceV)
	cmp := args[1]
	ex.insertionSort(len(s), func(i, j int) bool {
		r := ex.callValue(cmp, []Value{copyVal(s[i]), copyVal(s[j])}, nil)
		t := r.(*Term)
		if t.sort == SBool {
			return ex.branch(t)
		}
		return ex.branch(ex.ctx.Lt(t, ex.ctx.Int(0)))
	}, func(i, j int) { s[i], s[j] = s[j], s[i] })
	return nil
}

func sortOrderedModel(ex *Exec, fn *ssa.Function, args []Value) Value {
	s, _ := args[0].(SliceV)
	ex.insertionSort(len(s), func(i, j int) bool {
		switch a := s[i].(type) {
		case *Term:
			return ex.branch(ex.ctx.Lt(a, s[j].(*Term)))
		case Str:
			return ex.branch(ex.strLt(a, s[j].(Str)))
		case Float:
			return a.v < s[j].(Float).v
		}
		ex.incon("slices.Sort on %T", s[i])
		return false
	}, func(i, j int) { s[i], s[j] = s[j], s[i] })
	return nil
}

func sortIfaceModel(ex *Exec, fn *ssa.Function, args []Value) Value {
	data := args[0].(Iface)
	call := func(name string, a ...Value) Value {
		ms := ex.prog.MethodSets.MethodSet(data.t)
		for i := 0; i < ms.Len(); i++ {
			if ms.At(i).Obj().Name() == name {
				f := ex.prog.MethodValue(ms.At(i))
				return ex.callFn(f, append([]Value{data.v}, a...), nil)
			}
		}
		ex.incon("sort.Sort: method %s missing", name)
		return nil
	}
	n := ex.concreteInt(call("Len"), "sort len")
	ex.insertionSort(n, func(i, j int) bool {
		return ex.branch(call("Less", ex.ctx.Int(int64(i)), ex.ctx.Int(int64(j))).(*Term))
	}, func(i, j int) { call("Swap", ex.ctx.Int(int64(i)), ex.ctx.Int(int64(j))) })
	return nil
}

// ----- deep copy / deep equality -----

func (ex *Exec) deepCopy(v Value, memo map[*Value]*Value) Value {
	switch v := v.(type) {
	case *Value:
		if v == nil {
			return v
		}
		if n, ok := memo[v]; ok {
			return n
		}
		n := new(Value)
		memo[v] = n
		*n = ex.deepCopy(*v, memo)
		return n
	case Struct:
		n := make(Struct, len(v))
		for i := range v {
			n[i] = ex.deepCopy(v[i], memo)
		}
		return n
	case Array:
		n := make(Array, len(v))
		for i := range v {
			n[i] = ex.deepCopy(v[i], memo)
		}
		return n
	case Tuple:
		n := make(Tuple, len(v))
		for i := range v {
			n[i] = ex.deepCopy(v[i], memo)
		}
		return n
	case SliceV:
		if v == nil {
			return v
		}
		n := make(SliceV, len(v))
		for i := range v {
			n[i] = ex.deepCopy(v[i], memo)
		}
		return n
	case *MapV:
		if v == nil {
			return v
		}
		n := &MapV{kt: v.kt}
		for _, e := range v.ents {
			n.ents = append(n.ents, &mapEnt{k: ex.deepCopy(e.k, memo), v: ex.deepCopy(e.v, memo)})
		}
		return n
	case Iface:
		return Iface{t: v.t, v: ex.deepCopy(v.v, memo)}
	}
	return v
}

func (ex *Exec) deepEq(a, b Value, depth int) *Term {
	c := ex.ctx
	if depth > 40 {
		return c.tTrue
	}
	switch x := a.(type) {
	case *Value:
		y, ok := b.(*Value)
		if !ok {
			return c.tFalse
		}
		if x == nil || y == nil {
			return c.Bool(x == nil && y == nil)
		}
		if x == y {
			return c.tTrue
		}
		return ex.deepEq(*x, *y, depth+1)
	case Struct:
		if yb, isb := b.(BigVal); isb {
			return c.Eq(yb.t, c.Int(0))
		}
		y, ok := b.(Struct)
		if !ok || len(x) != len(y) {
			return c.tFalse
		}
		var parts []*Term
		for i := range x {
			parts = append(parts, ex.deepEq(x[i], y[i], depth+1))
		}
		return c.And(parts...)
	case Array:
		y, ok := b.(Array)
		if !ok || len(x) != len(y) {
			return c.tFalse
		}
		var parts []*Term
		for i := range x {
			parts = append(parts, ex.deepEq(x[i], y[i], depth+1))
		}
		return c.And(parts...)
	case Tuple:
		y, ok := b.(Tuple)
		if !ok || len(x) != len(y) {
			return c.tFalse
		}
		var parts []*Term
		for i := range x {
			parts = append(parts, ex.deepEq(x[i], y[i], depth+1))
		}
		return c.And(parts...)
	case SliceV:
		y, ok := b.(SliceV)
		if !ok || len(x) != len(y) {
			return c.tFalse
		}
		var parts []*Term
		for i := range x {
			parts = append(parts, ex.deepEq(x[i], y[i], depth+1))
		}
		return c.And(parts...)
	case *MapV:
		y, ok := b.(*MapV)
		if !ok {
			return c.tFalse
		}
		var xe, ye []*mapEnt
		if x != nil {
			xe = x.ents
		}
		if y != nil {
			ye = y.ents
		}
		if len(xe) != len(ye) {
			return c.tFalse
		}
		var parts []*Term
		for _, e := range xe {
			var alts []*Term
			for _, f := range ye {
				alts = append(alts, c.And(ex.eq(e.k, f.k), ex.deepEq(e.v, f.v, depth+1)))
			}
			parts = append(parts, c.Or(alts...))
		}
		return c.And(parts...)
	case Iface:
		y, ok := b.(Iface)
		if !ok {
			return c.tFalse
		}
		if x.t == nil || y.t == nil {
			return c.Bool(x.t == nil && y.t == nil)
		}
		if !types.Identical(x.t, y.t) {
			return c.tFalse
		}
		return ex.deepEq(x.v, y.v, depth+1)
	case BigVal:
		switch y := b.(type) {
		case BigVal:
			return c.Eq(x.t, y.t)
		case Struct:
			return c.Eq(x.t, c.Int(0))
		}
		return c.tFalse
	case Unknown:
		ex.incon("deep equality over unknown value: %s", x.why)
	}
	return ex.eq(a, b)
}

var _ = sort.Strings

// normDecoded: what protobuf decoding does to the gogoproto custom types that box/unbox would otherwise copy verbatim:
// a math.Int / LegacyDec whose *big.Int is nil is written as "0" and read back as a non-nil zero.
func (ex *Exec) normDecoded(v Value, t types.Type, depth int) Value {
	if depth > 12 {
		return v
	}
	t = types.Unalias(t)
	if n, ok := t.(*types.Named); ok && n.Obj().Pkg() != nil && n.Obj().Pkg().Path() == "cosmossdk.io/math" &&
		(n.Obj().Name() == "Int" || n.Obj().Name() == "LegacyDec") {
		if st, ok := v.(Struct); ok && len(st) == 1 {
			if p, ok := st[0].(*Value); ok && p == nil {
				return Struct{ex.newBig(ex.ctx.Int(0))}
			}
		}
		return v
	}
	switch u := t.Underlying().(type) {
	case *types.Struct:
		st, ok := v.(Struct)
		if !ok || len(st) != u.NumFields() {
			return v
		}
		out := make(Struct, len(st))
		for i := range st {
			out[i] = ex.normDecoded(st[i], u.Field(i).Type(), depth+1)
		}
		return out
	case *types.Slice:
		sl, ok := v.(SliceV)
		if !ok {
			return v
		}
		if _, isb := u.Elem().Underlying().(*types.Basic); isb {
			return v
		}
		for i := range sl {
			sl[i] = ex.normDecoded(sl[i], u.Elem(), depth+1)
		}
		return sl
	case *types.Array:
		ar, ok := v.(Array)
		if !ok {
			return v
		}
		for i := range ar {
			ar[i] = ex.normDecoded(ar[i], u.Elem(), depth+1)
		}
		return ar
	case *types.Pointer:
		if p, ok := v.(*Value); ok && p != nil {
			*p = ex.normDecoded(*p, u.Elem(), depth+1)
		}
	}
	return v
}
