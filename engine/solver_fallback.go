package main

import (
	"bytes"
	"fmt"
	"math/big"
	"os"
	"os/exec"
	"strings"
	"time"
)

// standalone builds a self-contained SMT-LIB2 script for the conjunction (no reliance on solver state).
func (c *Ctx) standalone(as []*Term, wantModel bool) (string, []string) {
	var sb strings.Builder
	seen := map[int]bool{}
	var names []string
	var visit func(t *Term)
	visit = func(t *Term) {
		if t.isConst || seen[t.id] {
			return
		}
		seen[t.id] = true
		if t.op == "var" {
			fmt.Fprintf(&sb, "(declare-const %s %s)\n", smtName(t.name), t.sort)
			names = append(names, smtName(t.name))
			if t.sort == SInt {
				if t.lo != nil {
					fmt.Fprintf(&sb, "(assert (>= %s %s))\n", smtName(t.name), smtInt(t.lo))
				}
				if t.hi != nil {
					fmt.Fprintf(&sb, "(assert (<= %s %s))\n", smtName(t.name), smtInt(t.hi))
				}
			}
			return
		}
		for _, a := range t.args {
			visit(a)
		}
		fmt.Fprintf(&sb, "(define-fun t%d () %s %s)\n", t.id, t.sort, t.body())
	}
	for _, a := range as {
		visit(a)
	}
	for _, a := range as {
		if !a.isConst {
			fmt.Fprintf(&sb, "(assert %s)\n", a.ref())
		}
	}
	sb.WriteString("(check-sat)\n")
	if wantModel && len(names) > 0 {
		sb.WriteString("(get-value (" + strings.Join(names, " ") + "))\n")
	}
	return sb.String(), names
}

var fallbackSolvers = [][]string{
	// one-shot z3-new first: the tactic-based solver decides div/mod-by-constant and mixed arithmetic queries in
	// milliseconds that the incremental (push/pop) core of the same binary does not finish
	{"z3-new", "-smt2"},
	{"z3", "-smt2"},
	{"cvc5", "--lang=smt2", "--produce-models", "--nl-ext-tplanes"},
}

// fallback runs the query one-shot on the other installed solvers; returns "unknown" if none decides.
func (s *Solver) fallback(as []*Term, timeoutMs int, wantModel bool) (string, map[string]*big.Int, map[string]bool, string) {
	txt, _ := s.ctx.standalone(as, wantModel)
	f, err := os.CreateTemp("", "gosym-q-*.smt2")
	if err != nil {
		return "unknown", nil, nil, ""
	}
	defer os.Remove(f.Name())
	f.WriteString("(set-option :produce-models true)\n")
	f.WriteString(txt)
	f.Close()
	gil.Unlock()
	defer gil.Lock()
	for _, sv := range fallbackSolvers {
		if s.kind == "cvc5" && sv[0] == "cvc5" {
			continue
		}
		args := append([]string{}, sv[1:]...)
		if sv[0] == "cvc5" {
			args = append(args, fmt.Sprintf("--tlimit=%d", timeoutMs))
		} else {
			args = append(args, fmt.Sprintf("-T:%d", timeoutMs/1000+1))
		}
		args = append(args, f.Name())
		cmd := exec.Command(sv[0], args...)
		var out bytes.Buffer
		cmd.Stdout = &out
		done := make(chan error, 1)
		cmd.Start()
		go func() { done <- cmd.Wait() }()
		select {
		case <-done:
		case <-time.After(time.Duration(timeoutMs)*time.Millisecond + 5*time.Second):
			cmd.Process.Kill()
			<-done
		}
		o := out.String()
		if strings.Contains(o, "(error") {
			continue
		}
		lines := strings.SplitN(strings.TrimSpace(o), "\n", 2)
		switch strings.TrimSpace(lines[0]) {
		case "unsat":
			return "unsat", nil, nil, sv[0]
		case "sat":
			if !wantModel {
				return "sat", nil, nil, sv[0]
			}
			if len(lines) > 1 {
				mi, mb := parseModel(lines[1])
				return "sat", mi, mb, sv[0]
			}
			return "sat", map[string]*big.Int{}, map[string]bool{}, sv[0]
		}
	}
	return "unknown", nil, nil, ""
}
