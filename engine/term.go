package main

// SMT term layer: hash-consed terms over Int and Bool with constant folding and
// conservative interval tracking (used to elide mod-2^w wraps that cannot fire).

import (
	"fmt"
	"math/big"
	"strings"
)

type Sort int

const (
	SInt Sort = iota
	SBool
)

func (s Sort) String() string {
	if s == SBool {
		return "Bool"
	}
	return "Int"
}

type Term struct {
	id      int
	op      string
	sort    Sort
	args    []*Term
	cInt    *big.Int // constant int
	cBool   bool
	isConst bool
	name    string   // variable name (op=="var")
	lo, hi  *big.Int // inclusive interval for Int terms, nil = unbounded
	defined bool     // emitted to solver
}

func (t *Term) String() string {
	if t == nil {
		return "<nilterm>"
	}
	if t.isConst {
		if t.sort == SBool {
			return fmt.Sprint(t.cBool)
		}
		return t.cInt.String()
	}
	if t.op == "var" {
		return t.name
	}
	return fmt.Sprintf("t%d", t.id)
}

type Ctx struct {
	tab    map[string]*Term
	terms  []*Term
	vars   []*Term
	varByN map[string]*Term
	tTrue  *Term
	tFalse *Term
	// factorSimp: keep constant factors together in products and cancel them against constant divisors (helps the
	// fixed-point decimal arithmetic of cosmossdk.io/math; off by default because it reshapes nonlinear terms)
	factorSimp bool
}

func NewCtx() *Ctx {
	c := &Ctx{tab: map[string]*Term{}, varByN: map[string]*Term{}}
	c.tTrue = c.intern(&Term{op: "true", sort: SBool, isConst: true, cBool: true})
	c.tFalse = c.intern(&Term{op: "false", sort: SBool, isConst: true, cBool: false})
	return c
}

func (c *Ctx) key(t *Term) string {
	var sb strings.Builder
	sb.WriteString(t.op)
	if t.isConst && t.sort == SInt {
		sb.WriteByte('#')
		sb.WriteString(t.cInt.String())
	}
	if t.op == "var" {
		sb.WriteByte('$')
		sb.WriteString(t.name)
	}
	for _, a := range t.args {
		fmt.Fprintf(&sb, ",%d", a.id)
	}
	return sb.String()
}

func (c *Ctx) intern(t *Term) *Term {
	k := c.key(t)
	if o, ok := c.tab[k]; ok {
		return o
	}
	t.id = len(c.terms)
	c.terms = append(c.terms, t)
	c.tab[k] = t
	return t
}

func (c *Ctx) Bool(b bool) *Term {
	if b {
		return c.tTrue
	}
	return c.tFalse
}

func (c *Ctx) IntBig(v *big.Int) *Term {
	v = new(big.Int).Set(v)
	return c.intern(&Term{op: "const", sort: SInt, isConst: true, cInt: v, lo: v, hi: v})
}
func (c *Ctx) Int(v int64) *Term   { return c.IntBig(big.NewInt(v)) }
func (c *Ctx) Uint(v uint64) *Term { return c.IntBig(new(big.Int).SetUint64(v)) }

// Var declares (or returns) a variable. lo/hi may be nil.
func (c *Ctx) Var(name string, s Sort, lo, hi *big.Int) *Term {
	if v, ok := c.varByN[name]; ok {
		return v
	}
	t := c.intern(&Term{op: "var", sort: s, name: name, lo: lo, hi: hi})
	c.varByN[name] = t
	c.vars = append(c.vars, t)
	return t
}

func (c *Ctx) mk(op string, s Sort, args ...*Term) *Term {
	return c.intern(&Term{op: op, sort: s, args: args})
}

func (c *Ctx) mkI(op string, lo, hi *big.Int, args ...*Term) *Term {
	t := c.intern(&Term{op: op, sort: SInt, args: args, lo: lo, hi: hi})
	return t
}

// ---------- boolean ----------

func (c *Ctx) Not(a *Term) *Term {
	if a.isConst {
		return c.Bool(!a.cBool)
	}
	if a.op == "not" {
		return a.args[0]
	}
	return c.mk("not", SBool, a)
}

func (c *Ctx) And(as ...*Term) *Term {
	var out []*Term
	for _, a := range as {
		if a.isConst {
			if !a.cBool {
				return c.tFalse
			}
			continue
		}
		out = append(out, a)
	}
	if len(out) == 0 {
		return c.tTrue
	}
	if len(out) == 1 {
		return out[0]
	}
	return c.mk("and", SBool, out...)
}

func (c *Ctx) Or(as ...*Term) *Term {
	var out []*Term
	for _, a := range as {
		if a.isConst {
			if a.cBool {
				return c.tTrue
			}
			continue
		}
		out = append(out, a)
	}
	if len(out) == 0 {
		return c.tFalse
	}
	if len(out) == 1 {
		return out[0]
	}
	return c.mk("or", SBool, out...)
}

func (c *Ctx) Implies(a, b *Term) *Term { return c.Or(c.Not(a), b) }

func (c *Ctx) Ite(cond, a, b *Term) *Term {
	if cond.isConst {
		if cond.cBool {
			return a
		}
		return b
	}
	if a == b {
		return a
	}
	if a.sort == SBool {
		switch {
		case a.isConst && b.isConst:
			if a.cBool {
				return cond
			}
			return c.Not(cond)
		case a.isConst && a.cBool:
			return c.Or(cond, b)
		case a.isConst && !a.cBool:
			return c.And(c.Not(cond), b)
		case b.isConst && b.cBool:
			return c.Or(c.Not(cond), a)
		case b.isConst && !b.cBool:
			return c.And(cond, a)
		}
		return c.mk("ite", SBool, cond, a, b)
	}
	var lo, hi *big.Int
	if a.lo != nil && b.lo != nil {
		lo = minBig(a.lo, b.lo)
	}
	if a.hi != nil && b.hi != nil {
		hi = maxBig(a.hi, b.hi)
	}
	return c.mkI("ite", lo, hi, cond, a, b)
}

func minBig(a, b *big.Int) *big.Int {
	if a.Cmp(b) <= 0 {
		return a
	}
	return b
}
func maxBig(a, b *big.Int) *big.Int {
	if a.Cmp(b) >= 0 {
		return a
	}
	return b
}

// ---------- comparisons ----------

// constLeafIte reports whether t is an ite tree whose leaves are all integer constants.
func constLeafIte(t *Term, depth int) bool {
	if t.isConst {
		return true
	}
	if t.op != "ite" || t.sort != SInt || depth > 6 {
		return false
	}
	return constLeafIte(t.args[1], depth+1) && constLeafIte(t.args[2], depth+1)
}

// distribute a comparison with a constant over an ite tree with constant leaves
func (c *Ctx) distCmp(t *Term, f func(leaf *Term) *Term) *Term {
	if t.isConst {
		return f(t)
	}
	return c.Ite(t.args[0], c.distCmp(t.args[1], f), c.distCmp(t.args[2], f))
}

func (c *Ctx) Eq(a, b *Term) *Term {
	if a == b {
		return c.tTrue
	}
	if a.sort == SInt {
		if b.isConst && !a.isConst && constLeafIte(a, 0) {
			return c.distCmp(a, func(l *Term) *Term { return c.Eq(l, b) })
		}
		if a.isConst && !b.isConst && constLeafIte(b, 0) {
			return c.distCmp(b, func(l *Term) *Term { return c.Eq(a, l) })
		}
	}
	if a.isConst && b.isConst {
		if a.sort == SBool {
			return c.Bool(a.cBool == b.cBool)
		}
		return c.Bool(a.cInt.Cmp(b.cInt) == 0)
	}
	if a.sort == SInt {
		// disjoint intervals
		if a.hi != nil && b.lo != nil && a.hi.Cmp(b.lo) < 0 {
			return c.tFalse
		}
		if b.hi != nil && a.lo != nil && b.hi.Cmp(a.lo) < 0 {
			return c.tFalse
		}
	}
	if a.sort == SBool {
		if a.isConst {
			if a.cBool {
				return b
			}
			return c.Not(b)
		}
		if b.isConst {
			if b.cBool {
				return a
			}
			return c.Not(a)
		}
	}
	if a.id > b.id {
		a, b = b, a
	}
	return c.mk("=", SBool, a, b)
}

func (c *Ctx) Lt(a, b *Term) *Term {
	if a.isConst && b.isConst {
		return c.Bool(a.cInt.Cmp(b.cInt) < 0)
	}
	if a == b {
		return c.tFalse
	}
	if b.isConst && constLeafIte(a, 0) {
		return c.distCmp(a, func(l *Term) *Term { return c.Lt(l, b) })
	}
	if a.isConst && constLeafIte(b, 0) {
		return c.distCmp(b, func(l *Term) *Term { return c.Lt(a, l) })
	}
	if a.hi != nil && b.lo != nil && a.hi.Cmp(b.lo) < 0 {
		return c.tTrue
	}
	if a.lo != nil && b.hi != nil && a.lo.Cmp(b.hi) >= 0 {
		return c.tFalse
	}
	return c.mk("<", SBool, a, b)
}
func (c *Ctx) Le(a, b *Term) *Term {
	if a.isConst && b.isConst {
		return c.Bool(a.cInt.Cmp(b.cInt) <= 0)
	}
	if a == b {
		return c.tTrue
	}
	if b.isConst && constLeafIte(a, 0) {
		return c.distCmp(a, func(l *Term) *Term { return c.Le(l, b) })
	}
	if a.isConst && constLeafIte(b, 0) {
		return c.distCmp(b, func(l *Term) *Term { return c.Le(a, l) })
	}
	if a.hi != nil && b.lo != nil && a.hi.Cmp(b.lo) <= 0 {
		return c.tTrue
	}
	if a.lo != nil && b.hi != nil && a.lo.Cmp(b.hi) > 0 {
		return c.tFalse
	}
	return c.mk("<=", SBool, a, b)
}
func (c *Ctx) Gt(a, b *Term) *Term { return c.Lt(b, a) }
func (c *Ctx) Ge(a, b *Term) *Term { return c.Le(b, a) }

// ---------- arithmetic over mathematical integers ----------

func addB(a, b *big.Int) *big.Int {
	if a == nil || b == nil {
		return nil
	}
	return new(big.Int).Add(a, b)
}
func subB(a, b *big.Int) *big.Int {
	if a == nil || b == nil {
		return nil
	}
	return new(big.Int).Sub(a, b)
}

func (c *Ctx) Add(a, b *Term) *Term {
	if a.isConst && b.isConst {
		return c.IntBig(new(big.Int).Add(a.cInt, b.cInt))
	}
	if a.isConst && a.cInt.Sign() == 0 {
		return b
	}
	if b.isConst && b.cInt.Sign() == 0 {
		return a
	}
	// normal form: constant on the right, nested constants folded
	if a.isConst {
		a, b = b, a
	}
	if b.isConst && a.op == "+" && a.args[1].isConst {
		return c.Add(a.args[0], c.IntBig(new(big.Int).Add(a.args[1].cInt, b.cInt)))
	}
	return c.mkI("+", addB(a.lo, b.lo), addB(a.hi, b.hi), a, b)
}

// splitConst returns (x, k) with t == x + k
func (c *Ctx) splitConst(t *Term) (*Term, *big.Int) {
	if t.op == "+" && t.args[1].isConst {
		return t.args[0], t.args[1].cInt
	}
	return t, nil
}

func (c *Ctx) Sub(a, b *Term) *Term {
	if a.isConst && b.isConst {
		return c.IntBig(new(big.Int).Sub(a.cInt, b.cInt))
	}
	if b.isConst && b.cInt.Sign() == 0 {
		return a
	}
	if a == b {
		return c.Int(0)
	}
	if b.isConst {
		return c.Add(a, c.IntBig(new(big.Int).Neg(b.cInt)))
	}
	xa, ka := c.splitConst(a)
	xb, kb := c.splitConst(b)
	if ka != nil || kb != nil {
		k := new(big.Int)
		if ka != nil {
			k.Add(k, ka)
		}
		if kb != nil {
			k.Sub(k, kb)
		}
		return c.Add(c.Sub(xa, xb), c.IntBig(k))
	}
	return c.mkI("-", subB(a.lo, b.hi), subB(a.hi, b.lo), a, b)
}

func (c *Ctx) Neg(a *Term) *Term { return c.Sub(c.Int(0), a) }

// constFactor splits t into k * rest with a constant k (rest == nil when t is a constant itself)
func (c *Ctx) constFactor(t *Term) (*big.Int, *Term) {
	if t.isConst {
		return t.cInt, nil
	}
	if t.op == "*" && len(t.args) == 2 {
		if t.args[0].isConst {
			return t.args[0].cInt, t.args[1]
		}
		if t.args[1].isConst {
			return t.args[1].cInt, t.args[0]
		}
	}
	return big.NewInt(1), t
}

// divisibleBy: is t syntactically a multiple of the positive constant d (a product with a constant factor d | k, or a
// sum of such terms)?  Returns the quotient term.

func (c *Ctx) divisibleBy(t *Term, d *big.Int) (*Term, bool) {
	if !c.factorSimp {
		return nil, false
	}
	if t.op == "+" && len(t.args) == 2 {
		q0, ok0 := c.divisibleBy(t.args[0], d)
		q1, ok1 := c.divisibleBy(t.args[1], d)
		if ok0 && ok1 {
			return c.Add(q0, q1), true
		}
		return nil, false
	}
	k, rest := c.constFactor(t)
	if new(big.Int).Rem(k, d).Sign() != 0 {
		return nil, false
	}
	q := new(big.Int).Quo(k, d)
	if rest == nil {
		return c.IntBig(q), true
	}
	return c.Mul(c.IntBig(q), rest), true
}

func (c *Ctx) Mul(a, b *Term) *Term {
	if a.isConst && b.isConst {
		return c.IntBig(new(big.Int).Mul(a.cInt, b.cInt))
	}
	// keep constant factors together: (k1*x)*k2 -> (k1*k2)*x, so that later divisions by constants can cancel
	if c.factorSimp && ((a.isConst && b.op == "*") || (b.isConst && a.op == "*")) {
		k, x := a, b
		if b.isConst {
			k, x = b, a
		}
		if kx, rest := c.constFactor(x); rest != nil && rest != x {
			return c.Mul(c.IntBig(new(big.Int).Mul(k.cInt, kx)), rest)
		}
	}
	if a.isConst {
		if a.cInt.Sign() == 0 {
			return a
		}
		if a.cInt.Cmp(big.NewInt(1)) == 0 {
			return b
		}
	}
	if b.isConst {
		if b.cInt.Sign() == 0 {
			return b
		}
		if b.cInt.Cmp(big.NewInt(1)) == 0 {
			return a
		}
	}
	var lo, hi *big.Int
	if a.lo != nil && a.hi != nil && b.lo != nil && b.hi != nil {
		ps := []*big.Int{new(big.Int).Mul(a.lo, b.lo), new(big.Int).Mul(a.lo, b.hi), new(big.Int).Mul(a.hi, b.lo), new(big.Int).Mul(a.hi, b.hi)}
		lo, hi = ps[0], ps[0]
		for _, p := range ps[1:] {
			lo = minBig(lo, p)
			hi = maxBig(hi, p)
		}
	}
	return c.mkI("*", lo, hi, a, b)
}

// Div: SMT-LIB div (floor for positive divisor, euclidean). Callers handle Go semantics.
func (c *Ctx) DivE(a, b *Term) *Term {
	if a.isConst && b.isConst && b.cInt.Sign() != 0 {
		q, _ := new(big.Int).DivMod(a.cInt, b.cInt, new(big.Int))
		return c.IntBig(q)
	}
	if b.isConst && b.cInt.Cmp(big.NewInt(1)) == 0 {
		return a
	}
	if b.isConst && b.cInt.Sign() > 0 {
		if q, ok := c.divisibleBy(a, b.cInt); ok {
			return q
		}
	}
	// exact division: (x*b) div b == x for b != 0
	if a.op == "*" && !b.isConst && (b.lo != nil && b.lo.Sign() > 0 || b.hi != nil && b.hi.Sign() < 0) {
		if a.args[1] == b {
			return a.args[0]
		}
		if a.args[0] == b {
			return a.args[1]
		}
	}
	var lo, hi *big.Int
	if a.lo != nil && a.lo.Sign() >= 0 && b.lo != nil && b.lo.Sign() > 0 {
		lo = big.NewInt(0)
		if a.hi != nil {
			hi = new(big.Int).Div(a.hi, b.lo)
		}
		if b.hi != nil {
			lo = new(big.Int).Div(a.lo, b.hi)
		}
	}
	return c.mkI("div", lo, hi, a, b)
}

func (c *Ctx) ModE(a, b *Term) *Term {
	if a.isConst && b.isConst && b.cInt.Sign() != 0 {
		_, m := new(big.Int).DivMod(a.cInt, b.cInt, new(big.Int))
		return c.IntBig(m)
	}
	if b.isConst && b.cInt.Sign() > 0 {
		if _, ok := c.divisibleBy(a, b.cInt); ok {
			return c.Int(0)
		}
	}
	// a already in [0,b) for constant b
	if b.isConst && b.cInt.Sign() > 0 && a.lo != nil && a.hi != nil && a.lo.Sign() >= 0 && a.hi.Cmp(b.cInt) < 0 {
		return a
	}
	var lo, hi *big.Int
	lo = big.NewInt(0)
	if b.hi != nil && b.lo != nil && b.lo.Sign() > 0 {
		hi = new(big.Int).Sub(b.hi, big.NewInt(1))
		if a.lo != nil && a.lo.Sign() >= 0 && a.hi != nil {
			hi = minBig(hi, a.hi)
		}
	}
	return c.mkI("mod", lo, hi, a, b)
}

// TruncDiv: Go semantics (truncate toward zero) on mathematical ints; b != 0 assumed by caller.
func (c *Ctx) TruncDiv(a, b *Term) *Term {
	if a.isConst && b.isConst && b.cInt.Sign() != 0 {
		return c.IntBig(new(big.Int).Quo(a.cInt, b.cInt))
	}
	nonNegA := a.lo != nil && a.lo.Sign() >= 0
	posB := b.lo != nil && b.lo.Sign() > 0
	if nonNegA && posB {
		return c.DivE(a, b)
	}
	// general: sign(a)*sign(b) * (|a| div |b|)
	absA := c.Ite(c.Ge(a, c.Int(0)), a, c.Neg(a))
	absB := c.Ite(c.Ge(b, c.Int(0)), b, c.Neg(b))
	q := c.DivE(absA, absB)
	sameSign := c.Eq(c.Ge(a, c.Int(0)), c.Ge(b, c.Int(0)))
	return c.Ite(sameSign, q, c.Neg(q))
}

// TruncRem: Go % semantics: a - b*trunc(a/b)
func (c *Ctx) TruncRem(a, b *Term) *Term {
	if a.isConst && b.isConst && b.cInt.Sign() != 0 {
		return c.IntBig(new(big.Int).Rem(a.cInt, b.cInt))
	}
	nonNegA := a.lo != nil && a.lo.Sign() >= 0
	posB := b.lo != nil && b.lo.Sign() > 0
	if nonNegA && posB {
		return c.ModE(a, b)
	}
	absA := c.Ite(c.Ge(a, c.Int(0)), a, c.Neg(a))
	absB := c.Ite(c.Ge(b, c.Int(0)), b, c.Neg(b))
	m := c.ModE(absA, absB)
	return c.Ite(c.Ge(a, c.Int(0)), m, c.Neg(m))
}

var pow2cache = map[uint]*big.Int{}

func pow2(n uint) *big.Int {
	return new(big.Int).Lsh(big.NewInt(1), n)
}

// Wrap to w-bit machine integer.
func (c *Ctx) Wrap(a *Term, w uint, signed bool) *Term {
	var lo, hi *big.Int
	if signed {
		lo = new(big.Int).Neg(pow2(w - 1))
		hi = new(big.Int).Sub(pow2(w-1), big.NewInt(1))
	} else {
		lo = big.NewInt(0)
		hi = new(big.Int).Sub(pow2(w), big.NewInt(1))
	}
	if a.lo != nil && a.hi != nil && a.lo.Cmp(lo) >= 0 && a.hi.Cmp(hi) <= 0 {
		return a
	}
	if a.isConst {
		m := new(big.Int).Mod(a.cInt, pow2(w))
		if signed && m.Cmp(hi) > 0 {
			m.Sub(m, pow2(w))
		}
		return c.IntBig(m)
	}
	M := c.IntBig(pow2(w))
	if !signed {
		t := c.intern(&Term{op: "mod", sort: SInt, args: []*Term{a, M}, lo: lo, hi: hi})
		return t
	}
	H := c.IntBig(pow2(w - 1))
	inner := c.intern(&Term{op: "mod", sort: SInt, args: []*Term{c.Add(a, H), M}, lo: big.NewInt(0), hi: new(big.Int).Sub(pow2(w), big.NewInt(1))})
	return c.mkI("-", lo, hi, inner, H)
}

// bit operations through bit-vectors of width w on values already in unsigned range [0,2^w)
func (c *Ctx) BitOp(op string, a, b *Term, w uint) *Term {
	if a.isConst && b.isConst {
		r := new(big.Int)
		switch op {
		case "bvand":
			r.And(a.cInt, b.cInt)
		case "bvor":
			r.Or(a.cInt, b.cInt)
		case "bvxor":
			r.Xor(a.cInt, b.cInt)
		}
		return c.IntBig(r)
	}
	hi := new(big.Int).Sub(pow2(w), big.NewInt(1))
	if op == "bvand" {
		// x & (2^k-1) == x mod 2^k
		for _, p := range [][2]*Term{{a, b}, {b, a}} {
			if p[1].isConst {
				m := new(big.Int).Add(p[1].cInt, big.NewInt(1))
				if m.Sign() > 0 && new(big.Int).And(m, p[1].cInt).Sign() == 0 {
					return c.ModE(p[0], c.IntBig(m))
				}
				if p[1].cInt.Sign() == 0 {
					return c.Int(0)
				}
			}
		}
		if a.hi != nil && b.hi != nil {
			hi = minBig(a.hi, b.hi)
		} else if a.hi != nil {
			hi = a.hi
		} else if b.hi != nil {
			hi = b.hi
		}
	}
	return c.intern(&Term{op: fmt.Sprintf("%s/%d", op, w), sort: SInt, args: []*Term{a, b}, lo: big.NewInt(0), hi: hi})
}

// ---------- SMT-LIB printing ----------

func smtInt(v *big.Int) string {
	if v.Sign() < 0 {
		return "(- " + new(big.Int).Neg(v).String() + ")"
	}
	return v.String()
}

func smtName(n string) string {
	return "|" + strings.ReplaceAll(strings.ReplaceAll(n, "|", "!"), "\\", "/") + "|"
}

func (t *Term) ref() string {
	if t.isConst {
		if t.sort == SBool {
			if t.cBool {
				return "true"
			}
			return "false"
		}
		return smtInt(t.cInt)
	}
	if t.op == "var" {
		return smtName(t.name)
	}
	return fmt.Sprintf("t%d", t.id)
}

func (t *Term) body() string {
	var sb strings.Builder
	op := t.op
	if i := strings.Index(op, "/"); i > 0 && strings.HasPrefix(op, "bv") {
		w := op[i+1:]
		fmt.Fprintf(&sb, "(bv2nat (%s ((_ int2bv %s) %s) ((_ int2bv %s) %s)))", op[:i], w, t.args[0].ref(), w, t.args[1].ref())
		return sb.String()
	}
	sb.WriteByte('(')
	sb.WriteString(op)
	for _, a := range t.args {
		sb.WriteByte(' ')
		sb.WriteString(a.ref())
	}
	sb.WriteByte(')')
	return sb.String()
}

// collectDefs returns SMT-LIB commands defining every not-yet-defined subterm of roots (post-order).
func (c *Ctx) collectDefs(roots []*Term, out *strings.Builder) {
	var visit func(t *Term)
	visit = func(t *Term) {
		if t.defined || t.isConst {
			return
		}
		t.defined = true
		if t.op == "var" {
			fmt.Fprintf(out, "(declare-const %s %s)\n", smtName(t.name), t.sort)
			if t.sort == SInt {
				if t.lo != nil {
					fmt.Fprintf(out, "(assert (>= %s %s))\n", smtName(t.name), smtInt(t.lo))
				}
				if t.hi != nil {
					fmt.Fprintf(out, "(assert (<= %s %s))\n", smtName(t.name), smtInt(t.hi))
				}
			}
			return
		}
		for _, a := range t.args {
			visit(a)
		}
		if (t.op == "div" || t.op == "mod") && len(t.args) == 2 && t.args[1].isConst && t.args[1].cInt.BitLen() > 40 && new(big.Int).Rem(t.args[1].cInt, big.NewInt(1000000000)).Sign() == 0 {
			// division by a large positive constant (fixed-point scale 10^18) as a linear quotient/remainder definition: the incremental core of z3
			// handles this far better than the div/mod operators (one-shot fallback scripts keep the operators)
			a, cst := t.args[0].ref(), smtInt(t.args[1].cInt)
			q, r := fmt.Sprintf("t%d", t.id), fmt.Sprintf("t%d_r", t.id)
			if t.op == "mod" {
				q, r = fmt.Sprintf("t%d_q", t.id), fmt.Sprintf("t%d", t.id)
			}
			fmt.Fprintf(out, "(declare-const %s Int)\n(declare-const %s Int)\n(assert (= %s (+ (* %s %s) %s)))\n(assert (<= 0 %s))\n(assert (< %s %s))\n", q, r, a, cst, q, r, r, r, cst)
			return
		}
		fmt.Fprintf(out, "(define-fun t%d () %s %s)\n", t.id, t.sort, t.body())
	}
	for _, r := range roots {
		visit(r)
	}
}

func (c *Ctx) resetDefined() {
	for _, t := range c.terms {
		t.defined = false
	}
}

// eval evaluates a term under a model (variable name -> value). Used to double check models and to
// evaluate known-finding regions.
func (c *Ctx) eval(t *Term, m map[string]*big.Int, mb map[string]bool, memo map[int]interface{}) interface{} {
	if t.isConst {
		if t.sort == SBool {
			return t.cBool
		}
		return t.cInt
	}
	if v, ok := memo[t.id]; ok {
		return v
	}
	var res interface{}
	I := func(i int) *big.Int { return c.eval(t.args[i], m, mb, memo).(*big.Int) }
	B := func(i int) bool { return c.eval(t.args[i], m, mb, memo).(bool) }
	op := t.op
	if i := strings.Index(op, "/"); i > 0 && strings.HasPrefix(op, "bv") {
		op = op[:i]
	}
	switch op {
	case "var":
		if t.sort == SBool {
			res = mb[t.name]
		} else {
			v, ok := m[t.name]
			if !ok {
				v = big.NewInt(0)
				if t.lo != nil && t.lo.Sign() > 0 {
					v = t.lo
				}
			}
			res = v
		}
	case "not":
		res = !B(0)
	case "and":
		r := true
		for i := range t.args {
			r = r && B(i)
		}
		res = r
	case "or":
		r := false
		for i := range t.args {
			r = r || B(i)
		}
		res = r
	case "ite":
		if B(0) {
			res = c.eval(t.args[1], m, mb, memo)
		} else {
			res = c.eval(t.args[2], m, mb, memo)
		}
	case "=":
		a := c.eval(t.args[0], m, mb, memo)
		b := c.eval(t.args[1], m, mb, memo)
		if x, ok := a.(bool); ok {
			res = x == b.(bool)
		} else {
			res = a.(*big.Int).Cmp(b.(*big.Int)) == 0
		}
	case "<":
		res = I(0).Cmp(I(1)) < 0
	case "<=":
		res = I(0).Cmp(I(1)) <= 0
	case "+":
		res = new(big.Int).Add(I(0), I(1))
	case "-":
		res = new(big.Int).Sub(I(0), I(1))
	case "*":
		res = new(big.Int).Mul(I(0), I(1))
	case "div":
		if I(1).Sign() == 0 {
			res = big.NewInt(0)
		} else {
			q, _ := new(big.Int).DivMod(I(0), I(1), new(big.Int))
			res = q
		}
	case "mod":
		if I(1).Sign() == 0 {
			res = big.NewInt(0)
		} else {
			_, r := new(big.Int).DivMod(I(0), I(1), new(big.Int))
			res = r
		}
	case "bvand":
		res = new(big.Int).And(I(0), I(1))
	case "bvor":
		res = new(big.Int).Or(I(0), I(1))
	case "bvxor":
		res = new(big.Int).Xor(I(0), I(1))
	default:
		panic("eval: unknown op " + t.op)
	}
	memo[t.id] = res
	return res
}
