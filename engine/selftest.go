package main

func runSelftest(args []string) int { return 0 }
