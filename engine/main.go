package main

import (
	"encoding/json"
	"fmt"
	"os"
	"path/filepath"
	"regexp"
	"sort"
	"strconv"
	"strings"
	"sync"
	"time"

	"golang.org/x/tools/go/packages"
	"golang.org/x/tools/go/ssa"
	"golang.org/x/tools/go/ssa/ssautil"
)

type CheckCfg struct {
	Property      string              `json:"property"`
	Title         string              `json:"title"`
	Files         []string            `json:"files"` // relative to /verif/harness and /repo
	Assumptions   []string            `json:"assumptions"`
	Outside       []string            `json:"outside_claim"`
	Harnesses     []*HarnessJSON      `json:"harnesses"`
	SkipInit      []string            `json:"skip_init"`
	Workers       int                 `json:"workers"`
	Module        string              `json:"module"`
	Shared        map[string][]string `json:"shared"`         // rel pkg dir -> names of /verif/harness/_shared/<name>.go injected into that package (package clause rewritten)
	FilesSymbolic []string            `json:"files_symbolic"` // harness files (relative to /verif/harness and /repo) injected in the symbolic run only
	FilesNative   []string            `json:"files_native"`   // ... and in the native replay only (same functions, native implementation)
	NativeOverlay map[string]string   `json:"native_overlay"` // repo-relative file -> /verif/harness-relative replacement, used by the native replay only (native counterpart of a symbolic-run stub)
}

type HarnessJSON struct {
	HarnessCfg
	ParamsQuick      map[string]int `json:"params_quick"`
	ParamsThorough   map[string]int `json:"params_thorough"`
	UnwindThorough   int            `json:"unwind_thorough"`
	MaxPathsThorough int            `json:"maxpaths_thorough"`
	StubSets         []string       `json:"stubsets"` // named groups of stubs (see stubSets); explicit "stubs" entries win
}

// stubSets: the stub tables that go with the shared harness helpers of /verif/harness/_shared
var stubSets = map[string]map[string]string{
	"coll": {
		"(*cosmossdk.io/collections.SchemaBuilder).addCollection": "verifCollAdd",
	},
	"kv": {
		"(github.com/cosmos/cosmos-sdk/types.Context).KVStore":       "verifKVStore",
		"(github.com/cosmos/cosmos-sdk/types.Context).BlockHeader":   "verifCtxHeader",
		"github.com/cosmos/cosmos-sdk/store/cachekv.NewStore":        "verifCacheNew",
		"(*github.com/cosmos/cosmos-sdk/store/cachekv.Store).Get":    "verifCacheGet",
		"(*github.com/cosmos/cosmos-sdk/store/cachekv.Store).Has":    "verifCacheHas",
		"(*github.com/cosmos/cosmos-sdk/store/cachekv.Store).Set":    "verifCacheSet",
		"(*github.com/cosmos/cosmos-sdk/store/cachekv.Store).Delete": "verifCacheDelete",
		"(*github.com/cosmos/cosmos-sdk/store/cachekv.Store).Write":  "verifCacheWrite",
	},
}

var modulePath = "github.com/lavanet/lava/v5"

var (
	repoDir  = "/repo"
	verifDir = "/verif"
)

func main() {
	if d := os.Getenv("VERIF_REPO"); d != "" {
		repoDir = d
	}
	if d := os.Getenv("VERIF_DIR"); d != "" {
		verifDir = d
	}
	if len(os.Args) < 2 {
		fmt.Println("usage: gosym check <ID> [--tier quick|thorough] [--only H] [--replay file] | selftest")
		os.Exit(2)
	}
	switch os.Args[1] {
	case "check":
		os.Exit(runCheck(os.Args[2:]))
	case "selftest":
		os.Exit(runSelftest(os.Args[2:]))
	default:
		fmt.Println("unknown command")
		os.Exit(2)
	}
}

type opts struct {
	id        string
	tier      string
	only      string
	replay    string
	trace     bool
	smtlog    bool
	solver    string
	noreplay  bool
	checkFile string
}

func parseOpts(args []string) *opts {
	o := &opts{tier: "quick", solver: "z3-new"}
	if t := os.Getenv("VERIF_TIER"); t != "" {
		o.tier = t
	}
	if s := os.Getenv("VERIF_SOLVER"); s != "" {
		o.solver = s
	}
	for i := 0; i < len(args); i++ {
		switch args[i] {
		case "--tier":
			i++
			o.tier = args[i]
		case "--only":
			i++
			o.only = args[i]
		case "--replay":
			i++
			o.replay = args[i]
		case "--trace":
			o.trace = true
		case "--smtlog":
			o.smtlog = true
		case "--noreplay":
			o.noreplay = true
		case "--solver":
			i++
			o.solver = args[i]
		case "--cfg":
			i++
			o.checkFile = args[i]
		default:
			if o.id == "" {
				o.id = args[i]
			}
		}
	}
	return o
}

var pkgLineRe = regexp.MustCompile(`(?m)^package\s+(\w+)`)

// collectOverlay gathers the harness files, the shared helper files (package clause rewritten) and the generated prelude
// of every package the check touches: content for go/packages, real paths for go test -overlay.
func collectOverlay(cc *CheckCfg, workDir string) (map[string][]byte, map[string]string, map[string]string, error) {
	overlay := map[string][]byte{}
	overlayFiles := map[string]string{} // virtual -> real (for go test -overlay)
	pkgNames := map[string]string{}     // rel dir -> package name
	for _, f := range cc.Files {
		real := filepath.Join(verifDir, "harness", f)
		data, err := os.ReadFile(real)
		if err != nil {
			return nil, nil, nil, err
		}
		virt := filepath.Join(repoDir, f)
		overlay[virt] = data
		overlayFiles[virt] = real
		rel := filepath.Dir(f)
		m := pkgLineRe.FindSubmatch(data)
		if m == nil {
			return nil, nil, nil, fmt.Errorf("no package clause in %s", f)
		}
		pkgNames[rel] = string(m[1])
	}
	for rel, names := range cc.Shared {
		pn, ok := pkgNames[rel]
		if !ok {
			return nil, nil, nil, fmt.Errorf("shared helper for %s: no harness file in that package", rel)
		}
		for _, n := range names {
			data, err := os.ReadFile(filepath.Join(verifDir, "harness", "_shared", n+".go"))
			if err != nil {
				return nil, nil, nil, err
			}
			data = pkgLineRe.ReplaceAll(data, []byte("package "+pn))
			dir := filepath.Join(workDir, "gen", strings.ReplaceAll(rel, "/", "_"))
			os.MkdirAll(dir, 0o755)
			real := filepath.Join(dir, "zz_verif_shared_"+n+".go")
			os.WriteFile(real, data, 0o644)
			virt := filepath.Join(repoDir, rel, "zz_verif_shared_"+n+".go")
			overlay[virt] = data
			overlayFiles[virt] = real
		}
	}
	for rel, name := range pkgNames {
		p := writePrelude(workDir, rel, name)
		data, _ := os.ReadFile(p)
		virt := filepath.Join(repoDir, rel, "zz_verif_prelude.go")
		overlay[virt] = data
		overlayFiles[virt] = p
	}
	return overlay, overlayFiles, pkgNames, nil
}

func loadProgram(cc *CheckCfg, workDir string) (*ssa.Program, map[string]*ssa.Package, map[string]string, map[string]string, error) {
	overlay, overlayFiles, pkgNames, err := collectOverlay(cc, workDir)
	if err != nil {
		return nil, nil, nil, nil, err
	}
	var pats []string
	seen := map[string]bool{}
	for _, h := range cc.Harnesses {
		if !seen[h.Pkg] {
			seen[h.Pkg] = true
			pats = append(pats, h.Pkg)
		}
	}
	for _, f := range cc.FilesSymbolic {
		data, err := os.ReadFile(filepath.Join(verifDir, "harness", f))
		if err != nil {
			return nil, nil, nil, nil, err
		}
		overlay[filepath.Join(repoDir, f)] = data
	}
	cfg := &packages.Config{
		Mode:    packages.LoadAllSyntax,
		Dir:     repoDir,
		Overlay: overlay,
		Env:     append(os.Environ(), "GOFLAGS=-mod=mod", "GOPROXY=off", "GOSUMDB=off", "GOTOOLCHAIN=local"),
	}
	initial, err := packages.Load(cfg, pats...)
	if err != nil {
		return nil, nil, nil, nil, err
	}
	for rf, hf := range cc.NativeOverlay { // native replay only
		overlayFiles[filepath.Join(repoDir, rf)] = filepath.Join(verifDir, "harness", hf)
	}
	for _, f := range cc.FilesNative {
		overlayFiles[filepath.Join(repoDir, f)] = filepath.Join(verifDir, "harness", f)
	}
	var errs []string
	packages.Visit(initial, nil, func(p *packages.Package) {
		for _, e := range p.Errors {
			if strings.HasPrefix(p.PkgPath, modulePath) {
				errs = append(errs, e.Error())
			}
		}
	})
	if len(errs) > 0 {
		if len(errs) > 10 {
			errs = errs[:10]
		}
		return nil, nil, nil, nil, fmt.Errorf("tree does not type-check with the harness: %s", strings.Join(errs, "; "))
	}
	prog, pkgs := ssautil.AllPackages(initial, ssa.InstantiateGenerics)
	out := map[string]*ssa.Package{}
	for i, p := range initial {
		if pkgs[i] == nil {
			return nil, nil, nil, nil, fmt.Errorf("no SSA package for %s", p.PkgPath)
		}
		pkgs[i].Build()
		out[p.PkgPath] = pkgs[i]
	}
	return prog, out, overlayFiles, pkgNames, nil
}

func relOfPkg(pkg string) string {
	return strings.TrimPrefix(strings.TrimPrefix(pkg, modulePath), "/")
}

func runCheck(args []string) int {
	o := parseOpts(args)
	t0 := time.Now()
	seed := 0
	if s := os.Getenv("VERIF_SEED"); s != "" {
		seed, _ = strconv.Atoi(s)
	}
	cfgPath := o.checkFile
	if cfgPath == "" {
		cfgPath = filepath.Join(verifDir, "checks", o.id+".json")
	}
	data, err := os.ReadFile(cfgPath)
	if err != nil {
		fmt.Printf("INCONCLUSIVE property=%s reason=cannot read check config: %v\n", o.id, err)
		return 2
	}
	var cc CheckCfg
	if err := json.Unmarshal(data, &cc); err != nil {
		fmt.Printf("INCONCLUSIVE property=%s reason=bad check config: %v\n", o.id, err)
		return 2
	}
	if cc.Module != "" {
		modulePath = cc.Module
	}
	workDir := filepath.Join(verifDir, ".work", cc.Property+"-"+o.tier+"-"+strconv.Itoa(os.Getpid()))
	if !o.smtlog { // --smtlog keeps the work directory (the logs live there)
		defer os.RemoveAll(workDir)
	}
	os.MkdirAll(workDir, 0o755)
	var known []KnownFinding
	if kd, err := os.ReadFile(filepath.Join(verifDir, "known_findings.json")); err == nil {
		var all []KnownFinding
		if err := json.Unmarshal(kd, &all); err != nil {
			fmt.Printf("INCONCLUSIVE property=%s reason=bad known_findings.json: %v\n", o.id, err)
			return 2
		}
		for _, k := range all {
			if k.Property == cc.Property {
				known = append(known, k)
			}
		}
	}

	if o.replay != "" {
		return runReplayOnly(&cc, o, workDir)
	}

	prog, pkgs, overlayFiles, pkgNames, err := loadProgram(&cc, workDir)
	if err != nil {
		fmt.Printf("INCONCLUSIVE property=%s reason=%v\n", cc.Property, err)
		writeEvidence(&cc, o, seed, nil, time.Since(t0), []string{"load failed: " + err.Error()}, 0, 0)
		return 2
	}
	loadS := time.Since(t0).Seconds()
	eng := &Engine{prog: prog, feasTimeout: 3000, qTimeout: 60000, skipInit: map[string]bool{}, trace: o.trace,
		solverKind: o.solver, known: known, property: cc.Property, tier: o.tier, workDir: workDir, smtLog: o.smtlog}
	if o.tier == "thorough" {
		eng.qTimeout = 300000
	}
	for _, s := range cc.SkipInit {
		eng.skipInit[s] = true
	}
	// select harnesses
	var hs []*HarnessCfg
	for _, hj := range cc.Harnesses {
		h := hj.HarnessCfg
		if o.only != "" && h.Name != o.only {
			continue
		}
		if len(h.Tiers) > 0 {
			ok := false
			for _, t := range h.Tiers {
				if t == o.tier {
					ok = true
				}
			}
			if !ok {
				continue
			}
		}
		if len(hj.StubSets) > 0 {
			merged := map[string]string{}
			for _, ss := range hj.StubSets {
				for k, v := range stubSets[ss] {
					merged[k] = v
				}
			}
			for k, v := range h.Stubs {
				merged[k] = v
			}
			h.Stubs = merged
		}
		h.Params = map[string]int{}
		for k, v := range hj.HarnessCfg.Params {
			h.Params[k] = v
		}
		src := hj.ParamsQuick
		if o.tier == "thorough" {
			src = hj.ParamsThorough
			if hj.UnwindThorough > 0 {
				h.Unwind = hj.UnwindThorough
			}
			if hj.MaxPathsThorough > 0 {
				h.MaxPaths = hj.MaxPathsThorough
			}
		}
		for k, v := range src {
			h.Params[k] = v
		}
		hc := h
		hs = append(hs, &hc)
	}
	results := make([]*HarnessResult, len(hs))
	workers := cc.Workers
	if workers == 0 {
		workers = 8
	}
	sem := make(chan struct{}, workers)
	var wg sync.WaitGroup
	for i, h := range hs {
		wg.Add(1)
		go func(i int, h *HarnessCfg) {
			defer wg.Done()
			sem <- struct{}{}
			defer func() { <-sem }()
			defer func() {
				if r := recover(); r != nil {
					results[i] = &HarnessResult{Name: h.Name, Pkg: h.Pkg, Inconclusive: []string{fmt.Sprintf("engine crash: %v", r)}}
				}
			}()
			results[i] = eng.runHarness(h, pkgs[h.Pkg])
		}(i, h)
	}
	wg.Wait()

	// ---- native replay of counterexamples and witnesses ----
	replayed, confirmed := 0, 0
	var extraIncon []string
	if !o.noreplay {
		byPkg := map[string][]int{}
		for i, h := range hs {
			if h.NoReplay {
				continue
			}
			byPkg[h.Pkg] = append(byPkg[h.Pkg], i)
		}
		pkgsSorted := make([]string, 0, len(byPkg))
		for p := range byPkg {
			pkgsSorted = append(pkgsSorted, p)
		}
		sort.Strings(pkgsSorted)
		for _, p := range pkgsSorted {
			var cases []replayCase
			var names []string
			type ref struct {
				v *Violation
				w *Witness
				r *HarnessResult
			}
			refs := map[string]ref{}
			for _, i := range byPkg[p] {
				r := results[i]
				names = append(names, hs[i].Name)
				for j, v := range r.Violations {
					id := fmt.Sprintf("%s/v%d", r.Name, j)
					cases = append(cases, replayCase{ID: id, Harness: r.Name, Vals: v.Vals})
					refs[id] = ref{v: v, r: r}
				}
				for j, w := range r.Witnesses {
					if j >= 3 {
						break
					}
					id := fmt.Sprintf("%s/w%d", r.Name, j)
					cases = append(cases, replayCase{ID: id, Harness: r.Name, Vals: w.Vals})
					refs[id] = ref{w: w, r: r}
				}
			}
			if len(cases) == 0 {
				continue
			}
			rel := relOfPkg(p)
			outs, txt, err := runReplay(repoDir, workDir, rel, pkgNames[rel], overlayFiles, names, cases)
			if err != nil {
				extraIncon = append(extraIncon, fmt.Sprintf("native replay for %s failed: %v: %s", p, err, lastLines(txt, 12)))
				continue
			}
			for id, rf := range refs {
				out := outs[id]
				if out == nil {
					extraIncon = append(extraIncon, "native replay produced no result for "+id+": "+lastLines(txt, 6))
					continue
				}
				replayed++
				if rf.v != nil {
					rf.v.Replayed = true
					ob, _ := json.Marshal(out)
					rf.v.ReplayOut = string(ob)
					if rf.v.Kind == "panic" {
						rf.v.ReplayOK = out.Panic != ""
					} else {
						rf.v.ReplayOK = contains(out.Failed, rf.v.Label)
					}
					if rf.v.ReplayOK {
						confirmed++
					}
				} else {
					rf.w.Replayed = true
					ok := contains(out.Reached, rf.w.Label) && out.Panic == "" && !out.AssumeFail
					note := ""
					// assertions failing natively although the encoding proved them on this path
					for _, f := range out.Failed {
						ok = false
						note += "native run fails assertion " + f + "; "
					}
					for k, ev := range rf.w.Observed {
						if nv, has := out.Observed[k]; has && nv != ev {
							ok = false
							note += fmt.Sprintf("observed %s: encoding %s vs native %s; ", k, ev, nv)
						}
					}
					if !contains(out.Reached, rf.w.Label) {
						note += "label not reached natively; "
					}
					if out.Panic != "" {
						note += "native panic: " + out.Panic
					}
					rf.w.ReplayOK = ok
					rf.w.Note = note
					if ok {
						confirmed++
					} else {
						extraIncon = append(extraIncon, fmt.Sprintf("witness %s (%s) does not replay natively: %s", id, rf.w.Label, note))
					}
				}
			}
		}
	}

	// ---- verdict ----
	exit := 0
	evDir := filepath.Join(verifDir, "evidence")
	evRel := "evidence"
	if d := os.Getenv("VERIF_EVIDENCE_DIR"); d != "" { // scratch runs against mutated trees must not touch committed evidence
		evDir, evRel = d, d
	}
	os.MkdirAll(filepath.Join(evDir, "replays"), 0o755)
	nviol := 0
	var inconAll []string
	inconAll = append(inconAll, extraIncon...)
	knownByID := map[string]KnownFinding{}
	for _, k := range known {
		knownByID[k.ID] = k
	}
	for _, r := range results {
		for _, m := range r.Inconclusive {
			inconAll = append(inconAll, r.Name+": "+m)
		}
		for _, v := range r.Violations {
			if v.KnownID != "" {
				k := knownByID[v.KnownID]
				if o.noreplay || v.ReplayOK || hsNoReplay(hs, r.Name) {
					fmt.Printf("KNOWN-FINDING: property=%s %s %s [harness=%s label=%s]\n", cc.Property, k.ID, k.What, r.Name, v.Label)
				} else {
					inconAll = append(inconAll, fmt.Sprintf("%s: known finding %s no longer reproduces natively (%s)", r.Name, k.ID, v.ReplayOut))
				}
				continue
			}
			if !o.noreplay && !v.ReplayOK && !hsNoReplay(hs, r.Name) {
				inconAll = append(inconAll, fmt.Sprintf("%s: counterexample for %q (%s) does not reproduce natively (encoding/stub suspect): vals=%v out=%s", r.Name, v.Label, v.Msg, v.Vals, v.ReplayOut))
				continue
			}
			nviol++
			file := filepath.Join(evRel, "replays", fmt.Sprintf("%s-%d.json", cc.Property, nviol))
			v.File = file
			rb, _ := json.MarshalIndent(map[string]interface{}{"property": cc.Property, "harness": r.Name, "pkg": r.Pkg, "label": v.Label, "kind": v.Kind, "msg": v.Msg, "vals": v.Vals, "native_replay": v.ReplayOut}, "", " ")
			os.WriteFile(filepath.Join(evDir, "replays", filepath.Base(file)), rb, 0o644)
			fmt.Printf("VIOLATION property=%s replay=%s harness=%s label=%q %s\n", cc.Property, file, r.Name, v.Label, v.Msg)
			exit = 1
		}
		for _, id := range r.StaleKnown {
			fmt.Printf("NOTE stale-known property=%s %s: listed as known but no counterexample found in its region (harness %s)\n", cc.Property, id, r.Name)
		}
	}
	// Inconclusive items (solver unknown, unwinding bound, unsupported construct on some path) are reported on
	// stdout and in the evidence as NOT decided; they are not violations, so they do not change the exit code.
	// Exit 2 is reserved for runs in which nothing could be explored (load/type-check failure, engine crash).
	explored := 0
	for _, r := range results {
		explored += r.Queries
	}
	if exit == 0 && explored == 0 {
		exit = 2
	}
	for _, m := range inconAll {
		fmt.Printf("INCONCLUSIVE property=%s reason=%s\n", cc.Property, oneLine(m, 9000))
	}
	for _, r := range results {
		fmt.Printf("SUMMARY property=%s harness=%s paths=%d instrs=%d queries=%d unsat=%d sat=%d unknown=%d solver_s=%.1f wall_s=%.1f asserts=%d\n",
			cc.Property, r.Name, r.Paths, r.Instrs, r.Queries, r.QUnsat, r.QSat, r.QUnknown, r.SolverS, r.WallS, len(r.Asserts))
	}
	writeEvidence(&cc, o, seed, results, time.Since(t0), inconAll, replayed, nviol)
	if exit == 0 {
		fmt.Printf("HELD property=%s tier=%s harnesses=%d undecided=%d load_s=%.0f wall_s=%.0f replayed=%d confirmed=%d\n", cc.Property, o.tier, len(results), len(inconAll), loadS, time.Since(t0).Seconds(), replayed, confirmed)
	}
	return exit
}

func hsNoReplay(hs []*HarnessCfg, name string) bool {
	for _, h := range hs {
		if h.Name == name {
			return h.NoReplay
		}
	}
	return false
}

func contains(l []string, s string) bool {
	for _, x := range l {
		if x == s {
			return true
		}
	}
	return false
}

func lastLines(s string, n int) string {
	ls := strings.Split(strings.TrimSpace(s), "\n")
	if len(ls) > n {
		ls = ls[len(ls)-n:]
	}
	return strings.Join(ls, " | ")
}

func oneLine(s string, max int) string {
	s = strings.ReplaceAll(s, "\n", " | ")
	if len(s) > max {
		s = s[:max] + "..."
	}
	return s
}

func writeEvidence(cc *CheckCfg, o *opts, seed int, results []*HarnessResult, wall time.Duration, incon []string, replayed, nviol int) {
	paths, instrs, queries, unsat, sat, unk := 0, 0, 0, 0, 0, 0
	solverS := 0.0
	var samples []interface{}
	funcs := map[string]bool{}
	var stubs []string
	assertsTotal := 0
	for _, r := range results {
		paths += r.Paths
		instrs += r.Instrs
		queries += r.Queries
		unsat += r.QUnsat
		sat += r.QSat
		unk += r.QUnknown
		solverS += r.SolverS
		assertsTotal += len(r.Asserts)
		for _, f := range r.Funcs {
			if strings.Contains(f, "lavanet/lava") {
				funcs[f] = true
			}
		}
		stubs = append(stubs, r.Stubs...)
		// trim long function lists in the sample: only repo functions
		rc := *r
		var lf []string
		for _, f := range r.Funcs {
			if strings.Contains(f, "lavanet/lava") && !strings.Contains(f, "verif_") {
				lf = append(lf, f)
			}
		}
		rc.Funcs = lf
		var lm []string
		for _, m := range r.Models {
			if !strings.Contains(m, "verif_") {
				lm = append(lm, m)
			}
		}
		rc.Models = lm
		if len(rc.Witnesses) > 4 {
			rc.Witnesses = rc.Witnesses[:4]
		}
		samples = append(samples, rc)
	}
	if len(samples) == 0 {
		samples = append(samples, map[string]string{"note": "no harness ran"})
	}
	if paths == 0 {
		paths = 1
	}
	if instrs == 0 {
		instrs = 1
	}
	ev := map[string]interface{}{
		"property_id": cc.Property,
		"tier":        o.tier,
		"seed":        seed,
		"level":       "model_checking",
		"coverage": map[string]interface{}{
			"states":                        paths,
			"transitions":                   instrs,
			"traces_validated_against_impl": replayed,
			"samples":                       samples,
			"rule":                          "states = symbolic paths of the harness functions explored to completion; transitions = SSA instructions executed symbolically; every assertion on every path is an SMT query (sat = counterexample, unsat = holds for all values within the bounds)",
			"queries":                       queries,
			"queries_unsat":                 unsat,
			"queries_sat":                   sat,
			"queries_unknown":               unk,
			"solver_s":                      solverS,
			"assertion_labels":              assertsTotal,
			"functions_encoded":             sortedKeys(funcs),
			"functions_stubbed":             stubs,
			"inconclusive":                  incon,
			"outside_claim":                 cc.Outside,
			"technique":                     "bounded symbolic execution of go/ssa IR of /repo into SMT-LIB2 (Int with explicit mod-2^w wrap), z3 verdict per assertion, native replay of models",
		},
		"assumptions": cc.Assumptions,
		"wall_s":      wall.Seconds(),
		"violations":  nviol,
	}
	b, _ := json.MarshalIndent(ev, "", " ")
	evDir := filepath.Join(verifDir, "evidence")
	if d := os.Getenv("VERIF_EVIDENCE_DIR"); d != "" {
		evDir = d
	}
	os.MkdirAll(evDir, 0o755)
	os.WriteFile(filepath.Join(evDir, cc.Property+".json"), b, 0o644)
}

func runReplayOnly(cc *CheckCfg, o *opts, workDir string) int {
	data, err := os.ReadFile(o.replay)
	if err != nil {
		fmt.Println("cannot read replay file:", err)
		return 2
	}
	var rp struct {
		Harness string            `json:"harness"`
		Pkg     string            `json:"pkg"`
		Label   string            `json:"label"`
		Kind    string            `json:"kind"`
		Vals    map[string]string `json:"vals"`
	}
	if err := json.Unmarshal(data, &rp); err != nil {
		fmt.Println("bad replay file:", err)
		return 2
	}
	_, overlayFiles, pkgNames, err := collectOverlay(cc, workDir)
	if err != nil {
		fmt.Println(err)
		return 2
	}
	for rf, hf := range cc.NativeOverlay {
		overlayFiles[filepath.Join(repoDir, rf)] = filepath.Join(verifDir, "harness", hf)
	}
	for _, f := range cc.FilesNative {
		overlayFiles[filepath.Join(repoDir, f)] = filepath.Join(verifDir, "harness", f)
	}
	rel := relOfPkg(rp.Pkg)
	var names []string
	for _, h := range cc.Harnesses {
		if h.Pkg == rp.Pkg {
			names = append(names, h.Name)
		}
	}
	outs, txt, err := runReplay(repoDir, workDir, rel, pkgNames[rel], overlayFiles, names, []replayCase{{ID: "r", Harness: rp.Harness, Vals: rp.Vals}})
	if err != nil || outs["r"] == nil {
		fmt.Println("replay failed:", err, lastLines(txt, 20))
		return 2
	}
	out := outs["r"]
	ob, _ := json.Marshal(out)
	fmt.Println("native run:", string(ob))
	if (rp.Kind == "panic" && out.Panic != "") || contains(out.Failed, rp.Label) {
		fmt.Printf("VIOLATION property=%s replay=%s (reproduced: %s)\n", cc.Property, o.replay, rp.Label)
		return 1
	}
	fmt.Println("not reproduced")
	return 0
}
