package main

import (
	"bufio"
	"fmt"
	"io"
	"math/big"
	"os"
	"os/exec"
	"strings"
	"sync"
	"time"
)

// gil serialises symbolic interpretation across harness goroutines (go/types and go/ssa lazily complete
// shared data structures); it is released while a solver query is in flight, where the time goes.
var gil sync.Mutex

type Solver struct {
	kind        string // z3 | z3-new | cvc5
	cmd         *exec.Cmd
	in          io.WriteCloser
	out         *bufio.Reader
	ctx         *Ctx
	logf        *os.File
	Queries     int
	NSat        int
	NUnsat      int
	NUnk        int
	NErr        int
	Time        time.Duration
	lines       chan string
	Fallbacks   int
	FallbackBy  string
	IncBudgetMs int // budget of the incremental attempt before a query goes one-shot to the portfolio (0 = the full query timeout)
}

func NewSolver(kind string, ctx *Ctx, logPath string) *Solver {
	s := &Solver{kind: kind, ctx: ctx}
	if logPath != "" {
		s.logf, _ = os.Create(logPath)
	}
	s.start()
	return s
}

func (s *Solver) start() {
	var cmd *exec.Cmd
	switch s.kind {
	case "z3-new":
		cmd = exec.Command("z3-new", "-in")
	case "cvc5":
		cmd = exec.Command("cvc5", "--incremental", "--lang=smt2", "--produce-models", "--nl-ext-tplanes", "--arith-nl-degree=2")
	default:
		cmd = exec.Command("z3", "-in")
	}
	in, _ := cmd.StdinPipe()
	out, _ := cmd.StdoutPipe()
	cmd.Stderr = nil
	if err := cmd.Start(); err != nil {
		panic(fatalErr{"cannot start solver " + s.kind + ": " + err.Error()})
	}
	s.cmd, s.in = cmd, in
	s.out = bufio.NewReaderSize(out, 1<<20)
	s.lines = make(chan string, 1024)
	go func(r *bufio.Reader, ch chan string) {
		for {
			l, err := r.ReadString('\n')
			if l != "" {
				ch <- strings.TrimRight(l, "\r\n")
			}
			if err != nil {
				close(ch)
				return
			}
		}
	}(s.out, s.lines)
	s.ctx.resetDefined()
	if s.kind == "cvc5" {
		s.send("(set-logic ALL)\n")
	}
	s.send("(set-option :produce-models true)\n")
}

func (s *Solver) send(txt string) {
	if s.logf != nil {
		s.logf.WriteString(txt)
	}
	io.WriteString(s.in, txt)
}

func (s *Solver) Close() {
	if s.cmd != nil {
		s.in.Close()
		s.cmd.Process.Kill()
		s.cmd.Wait()
		s.cmd = nil
	}
	if s.logf != nil {
		s.logf.Close()
	}
}

func (s *Solver) restart() {
	s.in.Close()
	s.cmd.Process.Kill()
	s.cmd.Wait()
	s.start()
}

// Check asks whether the conjunction is satisfiable. If wantModel and sat, returns values of all declared vars.
func (s *Solver) Check(as []*Term, timeoutMs int, wantModel bool) (string, map[string]*big.Int, map[string]bool) {
	t0 := time.Now()
	defer func() { s.Time += time.Since(t0) }()
	s.Queries++
	// trivial cases
	all := true
	for _, a := range as {
		if a.isConst && !a.cBool {
			s.NUnsat++
			return "unsat", nil, nil
		}
		if !a.isConst {
			all = false
		}
	}
	if all && !wantModel {
		s.NSat++
		return "sat", nil, nil
	}
	var sb strings.Builder
	s.ctx.collectDefs(as, &sb)
	// the incremental attempt gets a short budget; what it does not decide goes one-shot to the portfolio with the
	// full budget (see fallback)
	incMs := timeoutMs
	if s.IncBudgetMs > 0 && timeoutMs >= 10000 && incMs > s.IncBudgetMs {
		incMs = s.IncBudgetMs
	}
	if s.kind == "cvc5" {
		// cvc5 has no per-query option; use tlimit-per via set-option
		fmt.Fprintf(&sb, "(set-option :tlimit-per %d)\n", incMs)
	} else {
		fmt.Fprintf(&sb, "(set-option :timeout %d)\n", incMs)
	}
	sb.WriteString("(push 1)\n")
	for _, a := range as {
		if a.isConst {
			continue
		}
		fmt.Fprintf(&sb, "(assert %s)\n", a.ref())
	}
	sb.WriteString("(check-sat)\n")
	gil.Unlock()
	s.send(sb.String())
	res, errSeen := s.readResult(time.Duration(incMs)*time.Millisecond + 10*time.Second)
	gil.Lock()
	if res == "dead" {
		s.restart()
		s.NUnk++
		return "unknown", nil, nil
	}
	var mi map[string]*big.Int
	var mb map[string]bool
	if res == "sat" && wantModel {
		var names []string
		for _, v := range s.ctx.vars {
			if v.defined {
				names = append(names, smtName(v.name))
			}
		}
		if len(names) > 0 {
			s.send("(get-value (" + strings.Join(names, " ") + "))\n")
			txt := s.readSexp(20 * time.Second)
			mi, mb = parseModel(txt)
		} else {
			mi, mb = map[string]*big.Int{}, map[string]bool{}
		}
	}
	s.send("(pop 1)\n")
	if errSeen {
		s.NErr++
		return "error", nil, nil
	}
	switch res {
	case "sat":
		s.NSat++
	case "unsat":
		s.NUnsat++
	default:
		res = "unknown"
		// portfolio: ask the other installed solvers before giving up (only for real verdict queries)
		if timeoutMs >= 10000 {
			r2, mi2, mb2, who := s.fallback(as, timeoutMs, wantModel)
			if r2 != "unknown" {
				s.Fallbacks++
				s.FallbackBy = who
				if r2 == "sat" {
					s.NSat++
				} else {
					s.NUnsat++
				}
				return r2, mi2, mb2
			}
		}
		s.NUnk++
	}
	return res, mi, mb
}

func (s *Solver) readResult(d time.Duration) (string, bool) {
	errSeen := false
	timer := time.NewTimer(d)
	defer timer.Stop()
	for {
		select {
		case l, ok := <-s.lines:
			if !ok {
				return "dead", errSeen
			}
			l = strings.TrimSpace(l)
			switch l {
			case "sat", "unsat", "unknown", "timeout":
				return l, errSeen
			}
			if strings.HasPrefix(l, "(error") {
				errSeen = true
				if s.logf != nil {
					s.logf.WriteString("; " + l + "\n")
				}
			}
		case <-timer.C:
			return "dead", errSeen
		}
	}
}

func (s *Solver) readSexp(d time.Duration) string {
	var sb strings.Builder
	depth := 0
	started := false
	timer := time.NewTimer(d)
	defer timer.Stop()
	for {
		select {
		case l, ok := <-s.lines:
			if !ok {
				return sb.String()
			}
			inq := false
			for _, ch := range l {
				if ch == '|' {
					inq = !inq
				}
				if inq {
					continue
				}
				if ch == '(' {
					depth++
					started = true
				} else if ch == ')' {
					depth--
				}
			}
			sb.WriteString(l)
			sb.WriteByte('\n')
			if started && depth <= 0 {
				return sb.String()
			}
		case <-timer.C:
			return sb.String()
		}
	}
}

// parseModel parses ((|a| 5) (|b| (- 3)) (|c| true))
func parseModel(txt string) (map[string]*big.Int, map[string]bool) {
	mi := map[string]*big.Int{}
	mb := map[string]bool{}
	i := 0
	n := len(txt)
	skip := func() {
		for i < n && (txt[i] == ' ' || txt[i] == '\n' || txt[i] == '\t') {
			i++
		}
	}
	skip()
	if i >= n || txt[i] != '(' {
		return mi, mb
	}
	i++
	for {
		skip()
		if i >= n || txt[i] == ')' {
			break
		}
		if txt[i] != '(' {
			break
		}
		i++
		skip()
		var name string
		if txt[i] == '|' {
			j := strings.IndexByte(txt[i+1:], '|')
			name = txt[i+1 : i+1+j]
			i = i + 2 + j
		} else {
			j := i
			for j < n && txt[j] != ' ' && txt[j] != ')' {
				j++
			}
			name = txt[i:j]
			i = j
		}
		skip()
		// value: token or (- N)
		if txt[i] == '(' {
			j := strings.IndexByte(txt[i:], ')')
			inner := strings.Fields(txt[i+1 : i+j])
			i = i + j + 1
			if len(inner) == 2 && inner[0] == "-" {
				v, _ := new(big.Int).SetString(inner[1], 10)
				if v != nil {
					mi[name] = v.Neg(v)
				}
			}
		} else {
			j := i
			for j < n && txt[j] != ' ' && txt[j] != ')' {
				j++
			}
			tok := txt[i:j]
			i = j
			if tok == "true" {
				mb[name] = true
			} else if tok == "false" {
				mb[name] = false
			} else {
				v, ok := new(big.Int).SetString(tok, 10)
				if ok {
					mi[name] = v
				}
			}
		}
		skip()
		if i < n && txt[i] == ')' {
			i++
		}
	}
	return mi, mb
}
