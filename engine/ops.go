package main

import (
	"fmt"
	"go/token"
	"go/types"
	"math"
	"math/big"
	"unicode/utf8"

	"golang.org/x/tools/go/ssa"
)

func intInfo(t types.Type) (w uint, signed bool, ok bool) {
	bt, isb := t.Underlying().(*types.Basic)
	if !isb {
		return 0, false, false
	}
	switch bt.Kind() {
	case types.Int8:
		return 8, true, true
	case types.Int16:
		return 16, true, true
	case types.Int32:
		return 32, true, true
	case types.Int64, types.Int, types.UntypedInt, types.UntypedRune:
		return 64, true, true
	case types.Uint8:
		return 8, false, true
	case types.Uint16:
		return 16, false, true
	case types.Uint32:
		return 32, false, true
	case types.Uint64, types.Uint, types.Uintptr:
		return 64, false, true
	}
	return 0, false, false
}

func isFloatT(t types.Type) bool {
	bt, ok := t.Underlying().(*types.Basic)
	return ok && bt.Info()&types.IsFloat != 0
}
func isStringT(t types.Type) bool {
	bt, ok := t.Underlying().(*types.Basic)
	return ok && bt.Info()&types.IsString != 0
}

func (ex *Exec) toUnsigned(a *Term, w uint, signed bool) *Term {
	if !signed {
		return a
	}
	return ex.ctx.Wrap(a, w, false)
}

func (ex *Exec) binop(op token.Token, xt types.Type, x, y Value, yt types.Type) Value {
	c := ex.ctx
	if u, ok := x.(Unknown); ok {
		panic(unknownUse{u})
	}
	if u, ok := y.(Unknown); ok {
		panic(unknownUse{u})
	}
	switch a := x.(type) {
	case *Term:
		b, ok := y.(*Term)
		if !ok {
			ex.incon("binop %s: mixed operands %T %T", op, x, y)
		}
		if a.sort == SBool {
			switch op {
			case token.EQL:
				return c.Eq(a, b)
			case token.NEQ:
				return c.Not(c.Eq(a, b))
			case token.AND, token.LAND:
				return c.And(a, b)
			case token.OR, token.LOR:
				return c.Or(a, b)
			}
			ex.incon("bool binop %s", op)
		}
		w, signed, ok := intInfo(xt)
		if !ok {
			ex.incon("int binop on type %s", xt)
		}
		switch op {
		case token.ADD:
			return ex.wrap(c.Add(a, b), w, signed)
		case token.SUB:
			return ex.wrap(c.Sub(a, b), w, signed)
		case token.MUL:
			return ex.wrap(c.Mul(a, b), w, signed)
		case token.QUO:
			ex.mustHold(c.Not(c.Eq(b, c.Int(0))), "integer divide by zero")
			return ex.wrap(ex.truncDiv(a, b), w, signed)
		case token.REM:
			ex.mustHold(c.Not(c.Eq(b, c.Int(0))), "integer divide by zero")
			return ex.wrap(ex.truncRem(a, b), w, signed)
		case token.AND:
			r := c.BitOp("bvand", ex.toUnsigned(a, w, signed), ex.toUnsigned(b, w, signed), w)
			return c.Wrap(r, w, signed)
		case token.OR:
			r := c.BitOp("bvor", ex.toUnsigned(a, w, signed), ex.toUnsigned(b, w, signed), w)
			return c.Wrap(r, w, signed)
		case token.XOR:
			r := c.BitOp("bvxor", ex.toUnsigned(a, w, signed), ex.toUnsigned(b, w, signed), w)
			return c.Wrap(r, w, signed)
		case token.AND_NOT:
			nb := c.Sub(c.IntBig(new(big.Int).Sub(pow2(w), big.NewInt(1))), ex.toUnsigned(b, w, signed))
			r := c.BitOp("bvand", ex.toUnsigned(a, w, signed), nb, w)
			return c.Wrap(r, w, signed)
		case token.SHL, token.SHR:
			return ex.shift(op, a, b, w, signed)
		case token.EQL:
			return c.Eq(a, b)
		case token.NEQ:
			return c.Not(c.Eq(a, b))
		case token.LSS:
			return c.Lt(a, b)
		case token.LEQ:
			return c.Le(a, b)
		case token.GTR:
			return c.Gt(a, b)
		case token.GEQ:
			return c.Ge(a, b)
		}
	case Float:
		b, ok := y.(Float)
		if !ok {
			ex.incon("float binop with %T", y)
		}
		switch op {
		case token.ADD:
			return Float{a.v + b.v}
		case token.SUB:
			return Float{a.v - b.v}
		case token.MUL:
			return Float{a.v * b.v}
		case token.QUO:
			return Float{a.v / b.v}
		case token.EQL:
			return c.Bool(a.v == b.v)
		case token.NEQ:
			return c.Bool(a.v != b.v)
		case token.LSS:
			return c.Bool(a.v < b.v)
		case token.LEQ:
			return c.Bool(a.v <= b.v)
		case token.GTR:
			return c.Bool(a.v > b.v)
		case token.GEQ:
			return c.Bool(a.v >= b.v)
		}
	case Str:
		b, ok := y.(Str)
		if !ok {
			ex.incon("string binop with %T", y)
		}
		switch op {
		case token.ADD:
			return ex.concat(a, b)
		case token.EQL:
			return ex.strEq(a, b)
		case token.NEQ:
			return c.Not(ex.strEq(a, b))
		case token.LSS:
			return ex.strLt(a, b)
		case token.GTR:
			return ex.strLt(b, a)
		case token.LEQ:
			return c.Not(ex.strLt(b, a))
		case token.GEQ:
			return c.Not(ex.strLt(a, b))
		}
	}
	switch op {
	case token.EQL:
		return ex.eq(x, y)
	case token.NEQ:
		return c.Not(ex.eq(x, y))
	}
	ex.incon("unsupported binop %s on %T, %T", op, x, y)
	return nil
}

func (ex *Exec) concat(a, b Str) Str {
	if a.opaque || b.opaque {
		return Str{s: a.s + b.s, opaque: true}
	}
	if a.sym == nil && b.sym == nil {
		return Str{s: a.s + b.s}
	}
	return ex.mkStr(append(append([]*Term{}, ex.strBytes(a)...), ex.strBytes(b)...))
}

func (ex *Exec) shift(op token.Token, a, b *Term, w uint, signed bool) Value {
	c := ex.ctx
	one := func(k uint) *Term {
		if op == token.SHL {
			if k >= w {
				return c.Int(0)
			}
			return c.Wrap(c.Mul(a, c.IntBig(pow2(k))), w, signed)
		}
		if k >= w {
			if signed {
				return c.Ite(c.Lt(a, c.Int(0)), c.Int(-1), c.Int(0))
			}
			return c.Int(0)
		}
		return c.DivE(a, c.IntBig(pow2(k))) // floor division == arithmetic shift
	}
	if b.isConst {
		if b.cInt.Sign() < 0 {
			panic(goPanic{msg: "negative shift amount"})
		}
		if !b.cInt.IsUint64() || b.cInt.Uint64() > 1024 {
			return one(w)
		}
		return one(uint(b.cInt.Uint64()))
	}
	ex.mustHold(c.Ge(b, c.Int(0)), "negative shift amount")
	// ite chain over 0..w
	res := one(w)
	for k := int(w) - 1; k >= 0; k-- {
		res = c.Ite(c.Eq(b, c.Int(int64(k))), one(uint(k)), res)
	}
	return res
}

func (ex *Exec) unop(fr *Frame, in *ssa.UnOp) Value {
	c := ex.ctx
	x := ex.get(fr, in.X)
	if u, ok := x.(Unknown); ok {
		panic(unknownUse{u})
	}
	switch in.Op {
	case token.MUL:
		return ex.load(x, in.X.Name()+" in "+fr.fn.String()+" at "+posString(ex.prog, in.Pos()))
	case token.NOT:
		return c.Not(x.(*Term))
	case token.SUB:
		switch x := x.(type) {
		case *Term:
			w, s, _ := intInfo(in.X.Type())
			return c.Wrap(c.Neg(x), w, s)
		case Float:
			return Float{-x.v}
		}
	case token.XOR:
		w, s, _ := intInfo(in.X.Type())
		t := x.(*Term)
		if s {
			return c.Sub(c.Neg(t), c.Int(1))
		}
		return c.Sub(c.IntBig(new(big.Int).Sub(pow2(w), big.NewInt(1))), t)
	case token.ARROW:
		ex.incon("channel receive in %s", fr.fn)
	}
	ex.incon("unsupported unop %s on %T", in.Op, x)
	return nil
}

func (ex *Exec) convert(from, to types.Type, v Value) Value {
	c := ex.ctx
	if u, ok := v.(Unknown); ok {
		panic(unknownUse{u})
	}
	ut := to.Underlying()
	uf := from.Underlying()
	switch ut := ut.(type) {
	case *types.Basic:
		if w, signed, ok := intInfo(ut); ok {
			switch x := v.(type) {
			case *Term:
				return ex.wrap(x, w, signed)
			case Float:
				if math.IsNaN(x.v) || math.IsInf(x.v, 0) {
					return c.Int(0)
				}
				bf := new(big.Float).SetFloat64(math.Trunc(x.v))
				bi, _ := bf.Int(nil)
				return c.Wrap(c.IntBig(bi), w, signed)
			}
		}
		if ut.Info()&types.IsFloat != 0 {
			switch x := v.(type) {
			case Float:
				if ut.Kind() == types.Float32 {
					return Float{float64(float32(x.v))}
				}
				return x
			case *Term:
				if x.isConst {
					f, _ := new(big.Float).SetInt(x.cInt).Float64()
					return Float{f}
				}
				return Unknown{"float conversion of symbolic integer"}
			}
		}
		if ut.Info()&types.IsString != 0 {
			switch x := v.(type) {
			case Str:
				return x
			case *Term:
				if x.isConst {
					return Str{s: string(rune(x.cInt.Int64()))}
				}
				ex.incon("string(symbolic rune)")
			case SliceV:
				if sl, ok := uf.(*types.Slice); ok {
					if w, _, _ := intInfo(sl.Elem()); w == 8 {
						bs := make([]*Term, len(x))
						for i := range x {
							bs[i] = x[i].(*Term)
						}
						return ex.mkStr(bs)
					}
					// []rune
					var rs []rune
					for i := range x {
						t := x[i].(*Term)
						if !t.isConst {
							ex.incon("string([]rune) symbolic")
						}
						rs = append(rs, rune(t.cInt.Int64()))
					}
					return Str{s: string(rs)}
				}
			}
		}
		if ut.Kind() == types.UnsafePointer {
			return v
		}
	case *types.Slice:
		if s, ok := v.(Str); ok {
			if w, _, _ := intInfo(ut.Elem()); w == 8 {
				bs := ex.strBytes(s)
				out := make(SliceV, len(bs))
				for i, b := range bs {
					out[i] = b
				}
				return out
			}
			if !s.isConcrete() {
				ex.incon("[]rune(symbolic string)")
			}
			rs := []rune(s.s)
			out := make(SliceV, len(rs))
			for i, r := range rs {
				out[i] = c.Int(int64(r))
			}
			return out
		}
		return v
	case *types.Pointer:
		return v
	}
	ex.incon("unsupported conversion %s -> %s (%T)", from, to, v)
	return nil
}

func (ex *Exec) symIndex(t *Term, n int, what string) int {
	c := ex.ctx
	if t.isConst {
		if !t.cInt.IsInt64() || t.cInt.Int64() < 0 || t.cInt.Int64() >= int64(n) {
			panic(goPanic{msg: fmt.Sprintf("index out of range [%s] with length %d (%s)", t.cInt, n, what)})
		}
		return int(t.cInt.Int64())
	}
	if n > 64 {
		ex.incon("symbolic index into sequence of length %d (%s)", n, what)
	}
	guards := make([]*Term, 0, n+1)
	for i := 0; i < n; i++ {
		guards = append(guards, c.Eq(t, c.Int(int64(i))))
	}
	guards = append(guards, c.Or(c.Lt(t, c.Int(0)), c.Ge(t, c.Int(int64(n)))))
	i := ex.choose(guards)
	if i == n {
		panic(goPanic{msg: fmt.Sprintf("index out of range with length %d (%s)", n, what)})
	}
	return i
}

func (ex *Exec) indexAddr(fr *Frame, in *ssa.IndexAddr) Value {
	x := ex.get(fr, in.X)
	idx := ex.asTerm(ex.get(fr, in.Index), "index")
	what := fr.fn.String() + " at " + posString(ex.prog, in.Pos())
	switch x := x.(type) {
	case SliceV:
		i := ex.symIndex(idx, len(x), what)
		return &x[i]
	case *Value:
		if x == nil {
			panic(goPanic{msg: "nil pointer dereference (array index) " + what})
		}
		a := (*x).(Array)
		i := ex.symIndex(idx, len(a), what)
		return &a[i]
	case Unknown:
		panic(unknownUse{x})
	}
	panic(fatalErr{fmt.Sprintf("IndexAddr on %T in %s", x, fr.fn)})
}

func (ex *Exec) index(fr *Frame, in *ssa.Index) Value {
	x := ex.get(fr, in.X)
	idx := ex.asTerm(ex.get(fr, in.Index), "index")
	what := fr.fn.String() + " at " + posString(ex.prog, in.Pos())
	switch x := x.(type) {
	case Array:
		i := ex.symIndex(idx, len(x), what)
		return copyVal(x[i])
	case Str:
		bs := ex.strBytes(x)
		i := ex.symIndex(idx, len(bs), what)
		return bs[i]
	case Unknown:
		panic(unknownUse{x})
	}
	panic(fatalErr{fmt.Sprintf("Index on %T in %s", x, fr.fn)})
}

func (ex *Exec) lookup(fr *Frame, in *ssa.Lookup) Value {
	x := ex.get(fr, in.X)
	k := ex.get(fr, in.Index)
	switch x := x.(type) {
	case Str:
		bs := ex.strBytes(x)
		i := ex.symIndex(ex.asTerm(k, "string index"), len(bs), fr.fn.String())
		return bs[i]
	case *MapV:
		vt := in.X.Type().Underlying().(*types.Map).Elem()
		var e *mapEnt
		if x != nil {
			e = ex.mapFind(x, k)
		}
		var v Value
		if e != nil {
			v = copyVal(e.v)
		} else {
			v = ex.zero(vt)
		}
		if in.CommaOk {
			return Tuple{v, ex.ctx.Bool(e != nil)}
		}
		return v
	case Unknown:
		panic(unknownUse{x})
	}
	panic(fatalErr{fmt.Sprintf("Lookup on %T in %s", x, fr.fn)})
}

func (ex *Exec) mapFind(m *MapV, k Value) *mapEnt {
	if u, ok := k.(Unknown); ok {
		panic(unknownUse{u})
	}
	// concrete fast path first: exact constant match
	for _, e := range m.ents {
		c := ex.eq(e.k, k)
		if c.isConst {
			if c.cBool {
				return e
			}
			continue
		}
		if ex.branch(c) {
			return e
		}
	}
	return nil
}

func (ex *Exec) mapUpdate(m *MapV, k, v Value) {
	if m == nil {
		panic(goPanic{msg: "assignment to entry in nil map"})
	}
	if e := ex.mapFind(m, k); e != nil {
		e.v = copyVal(v)
		return
	}
	m.ents = append(m.ents, &mapEnt{k: copyVal(k), v: copyVal(v)})
}

func (ex *Exec) mapDelete(m *MapV, k Value) {
	if m == nil {
		return
	}
	if e := ex.mapFind(m, k); e != nil {
		for i, x := range m.ents {
			if x == e {
				m.ents = append(append([]*mapEnt{}, m.ents[:i]...), m.ents[i+1:]...)
				return
			}
		}
	}
}

func (ex *Exec) rangeIter(x Value) Value {
	switch x := x.(type) {
	case *MapV:
		it := &RangeIter{m: x}
		if x != nil {
			it.order = append([]*mapEnt{}, x.ents...)
			if len(it.order) > 1 && ex.inInit == 0 {
				idx := ex.mapRangeCount
				ex.mapRangeCount++
				if ex.flipMode == 1 || (ex.flipMode == 2 && idx == ex.flipSite) {
					for i, j := 0, len(it.order)-1; i < j; i, j = i+1, j-1 {
						it.order[i], it.order[j] = it.order[j], it.order[i]
					}
				}
			}
		}
		return it
	case Str:
		if !x.isConcrete() {
			// allow symbolic strings if all bytes are constrained ASCII? keep simple
			ex.incon("range over symbolic string")
		}
		return &RangeIter{str: &x}
	case Unknown:
		panic(unknownUse{x})
	}
	ex.incon("range over %T", x)
	return nil
}

func (ex *Exec) next(fr *Frame, in *ssa.Next) Value {
	it := ex.get(fr, in.Iter).(*RangeIter)
	c := ex.ctx
	if in.IsString {
		s := it.str.s
		if it.pos >= len(s) {
			return Tuple{c.tFalse, c.Int(0), c.Int(0)}
		}
		r, sz := utf8.DecodeRuneInString(s[it.pos:])
		p := it.pos
		it.pos += sz
		return Tuple{c.tTrue, c.Int(int64(p)), c.Int(int64(r))}
	}
	// map
	for {
		// drop entries deleted meanwhile
		live := it.order[:0:0]
		for _, e := range it.order {
			for _, cur := range it.m.ents {
				if cur == e {
					live = append(live, e)
					break
				}
			}
		}
		it.order = live
		if len(it.order) == 0 {
			kt := in.Type().(*types.Tuple)
			var kz, vz Value
			kz, vz = c.Int(0), c.Int(0)
			_ = kt
			return Tuple{c.tFalse, kz, vz}
		}
		pick := 0
		if ex.cfg.MapOrder == "nondet" && len(it.order) > 1 && ex.inInit == 0 {
			pick = ex.choose(make([]*Term, len(it.order)))
		}
		e := it.order[pick]
		it.order = append(append([]*mapEnt{}, it.order[:pick]...), it.order[pick+1:]...)
		return Tuple{c.tTrue, copyVal(e.k), copyVal(e.v)}
	}
}

func (ex *Exec) sliceOp(fr *Frame, in *ssa.Slice) Value {
	x := ex.get(fr, in.X)
	if u, ok := x.(Unknown); ok {
		panic(unknownUse{u})
	}
	getI := func(v ssa.Value, def int) int {
		if v == nil {
			return def
		}
		return ex.concreteInt(ex.get(fr, v), "slice bound")
	}
	what := fr.fn.String() + " at " + posString(ex.prog, in.Pos())
	switch x := x.(type) {
	case Str:
		n := x.length()
		lo, hi := getI(in.Low, 0), getI(in.High, n)
		if lo < 0 || hi > n || lo > hi {
			panic(goPanic{msg: fmt.Sprintf("slice bounds out of range [%d:%d] with length %d (%s)", lo, hi, n, what)})
		}
		if x.opaque {
			return Str{s: x.s, opaque: true}
		}
		if x.sym == nil {
			return Str{s: x.s[lo:hi]}
		}
		return ex.mkStr(x.sym[lo:hi])
	case SliceV:
		lo, hi, mx := getI(in.Low, 0), getI(in.High, len(x)), getI(in.Max, cap(x))
		if lo < 0 || hi > cap(x) || lo > hi || mx > cap(x) || hi > mx {
			panic(goPanic{msg: fmt.Sprintf("slice bounds out of range [%d:%d:%d] with capacity %d (%s)", lo, hi, mx, cap(x), what)})
		}
		if x == nil {
			return SliceV(nil)
		}
		return x[lo:hi:mx]
	case *Value:
		if x == nil {
			panic(goPanic{msg: "slice of nil array pointer " + what})
		}
		a := (*x).(Array)
		lo, hi, mx := getI(in.Low, 0), getI(in.High, len(a)), getI(in.Max, len(a))
		if lo < 0 || hi > len(a) || lo > hi || mx > len(a) || hi > mx {
			panic(goPanic{msg: "slice bounds out of range " + what})
		}
		return SliceV(a[lo:hi:mx])
	}
	ex.incon("slice of %T", x)
	return nil
}

func (ex *Exec) typeAssert(fr *Frame, in *ssa.TypeAssert) Value {
	x := ex.get(fr, in.X)
	if u, ok := x.(Unknown); ok {
		panic(unknownUse{u})
	}
	xi := x.(Iface)
	var ok bool
	var val Value
	if it, isI := in.AssertedType.Underlying().(*types.Interface); isI {
		ok = xi.t != nil && types.Implements(xi.t, it)
		val = xi
	} else {
		ok = xi.t != nil && types.Identical(xi.t, in.AssertedType)
		val = xi.v
	}
	if in.CommaOk {
		if !ok {
			val = ex.zero(in.AssertedType)
		}
		return Tuple{val, ex.ctx.Bool(ok)}
	}
	if !ok {
		ts := "nil"
		if xi.t != nil {
			ts = xi.t.String()
		}
		panic(goPanic{msg: fmt.Sprintf("interface conversion: %s is not %s (%s)", ts, in.AssertedType, fr.fn)})
	}
	return val
}

func (ex *Exec) callBuiltin(b *ssa.Builtin, args []Value, cc *ssa.CallCommon) Value {
	c := ex.ctx
	for _, a := range args {
		if u, ok := a.(Unknown); ok {
			panic(unknownUse{u})
		}
	}
	switch b.Name() {
	case "len":
		switch x := args[0].(type) {
		case Str:
			if x.opaque {
				ex.incon("len of opaque formatted string")
			}
			return c.Int(int64(x.length()))
		case SliceV:
			return c.Int(int64(len(x)))
		case Array:
			return c.Int(int64(len(x)))
		case *MapV:
			if x == nil {
				return c.Int(0)
			}
			return c.Int(int64(len(x.ents)))
		case *Value:
			if x == nil {
				return c.Int(0)
			}
			return c.Int(int64(len((*x).(Array))))
		case *ChanV:
			return c.Int(0)
		}
	case "cap":
		switch x := args[0].(type) {
		case SliceV:
			return c.Int(int64(cap(x)))
		case Array:
			return c.Int(int64(len(x)))
		case *Value:
			if x == nil {
				return c.Int(0)
			}
			return c.Int(int64(len((*x).(Array))))
		case *ChanV:
			return c.Int(0)
		}
	case "append":
		dst := args[0].(SliceV)
		switch src := args[1].(type) {
		case SliceV:
			if len(src) == 0 {
				return dst
			}
			cp := make(SliceV, len(src))
			for i := range src {
				cp[i] = copyVal(src[i])
			}
			return append(dst, cp...)
		case Str:
			for _, bt := range ex.strBytes(src) {
				dst = append(dst, bt)
			}
			return dst
		}
	case "copy":
		dst := args[0].(SliceV)
		switch src := args[1].(type) {
		case SliceV:
			n := len(dst)
			if len(src) < n {
				n = len(src)
			}
			tmp := make([]Value, n)
			for i := 0; i < n; i++ {
				tmp[i] = copyVal(src[i])
			}
			copy(dst, tmp)
			return c.Int(int64(n))
		case Str:
			bs := ex.strBytes(src)
			n := len(dst)
			if len(bs) < n {
				n = len(bs)
			}
			for i := 0; i < n; i++ {
				dst[i] = bs[i]
			}
			return c.Int(int64(n))
		}
	case "delete":
		ex.mapDelete(args[0].(*MapV), args[1])
		return nil
	case "print", "println":
		return nil
	case "recover":
		if n := len(ex.curDeferFrame); n > 0 {
			fr := ex.curDeferFrame[n-1]
			if fr.panicking {
				fr.panicking = false
				gp := fr.panicVal.(goPanic)
				ex.res.Recovered++
				if i, ok := gp.val.(Iface); ok && i.t != nil {
					return i
				}
				return Iface{t: types.Typ[types.String], v: Str{s: gp.msg}}
			}
		}
		return Iface{}
	case "min", "max":
		res := args[0]
		for _, a := range args[1:] {
			switch r := res.(type) {
			case *Term:
				at := a.(*Term)
				if b.Name() == "min" {
					res = c.Ite(c.Le(r, at), r, at)
				} else {
					res = c.Ite(c.Ge(r, at), r, at)
				}
			case Float:
				af := a.(Float)
				if b.Name() == "min" {
					res = Float{math.Min(r.v, af.v)}
				} else {
					res = Float{math.Max(r.v, af.v)}
				}
			default:
				ex.incon("min/max on %T", res)
			}
		}
		return res
	case "clear":
		switch x := args[0].(type) {
		case *MapV:
			if x != nil {
				x.ents = nil
			}
		case SliceV:
			if len(x) > 0 {
				et := cc.Args[0].Type().Underlying().(*types.Slice).Elem()
				for i := range x {
					x[i] = ex.zero(et)
				}
			}
		}
		return nil
	case "ssa:wrapnilchk":
		if p, ok := args[0].(*Value); ok && p == nil {
			panic(goPanic{msg: "value method called using nil pointer"})
		}
		return args[0]
	case "close":
		return nil
	}
	ex.incon("unsupported builtin %s on %T", b.Name(), args[0])
	return nil
}
