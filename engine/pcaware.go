package main

// Path-condition-aware simplification: before building sign-case / wrap-around encodings, ask the solver whether
// the case can occur under the current path condition. A refuted case is dropped (sound under the PC of this path).

import "math/big"

type factKey struct {
	id   int
	kind int
	pc   uint64 // hash of the path condition the fact was established under
}

func (ex *Exec) pcHash() uint64 {
	h := uint64(1469598103934665603)
	for _, t := range ex.pc {
		h ^= uint64(t.id) + 0x9e3779b97f4a7c15
		h *= 1099511628211
	}
	return h
}

func (ex *Exec) pcRefutes(cond *Term) bool {
	if cond.isConst {
		return !cond.cBool
	}
	r, _, _ := ex.sol.Check(append(append([]*Term{}, ex.pc...), cond), 1500, false)
	return r == "unsat"
}

func (ex *Exec) fact(t *Term, kind int, cond func() *Term) bool {
	// cached across paths: re-execution of a prefix must see the same answers (determinism), and pays no query
	if ex.facts == nil {
		ex.facts = map[factKey]bool{}
	}
	k := factKey{t.id, kind, ex.pcHash()}
	if v, ok := ex.facts[k]; ok {
		return v
	}
	v := ex.pcRefutes(cond())
	ex.facts[k] = v
	return v
}

func (ex *Exec) knownNonNeg(t *Term) bool {
	if t.lo != nil && t.lo.Sign() >= 0 {
		return true
	}
	if t.isConst || (t.hi != nil && t.hi.Sign() < 0) {
		return false
	}
	return ex.fact(t, 1, func() *Term { return ex.ctx.Lt(t, ex.ctx.Int(0)) })
}

func (ex *Exec) knownPos(t *Term) bool {
	if t.lo != nil && t.lo.Sign() > 0 {
		return true
	}
	if t.isConst || (t.hi != nil && t.hi.Sign() <= 0) {
		return false
	}
	return ex.fact(t, 2, func() *Term { return ex.ctx.Le(t, ex.ctx.Int(0)) })
}

func (ex *Exec) knownNeg(t *Term) bool {
	if t.hi != nil && t.hi.Sign() < 0 {
		return true
	}
	if t.isConst || (t.lo != nil && t.lo.Sign() >= 0) {
		return false
	}
	return ex.fact(t, 3, func() *Term { return ex.ctx.Ge(t, ex.ctx.Int(0)) })
}

// wrap: machine-width wrap with the PC consulted when static intervals cannot exclude overflow.
func (ex *Exec) wrap(t *Term, w uint, signed bool) *Term {
	c := ex.ctx
	r := c.Wrap(t, w, signed)
	if r == t || t.isConst {
		return r
	}
	var lo, hi *big.Int
	if signed {
		lo = new(big.Int).Neg(pow2(w - 1))
		hi = new(big.Int).Sub(pow2(w-1), big.NewInt(1))
	} else {
		lo = big.NewInt(0)
		hi = new(big.Int).Sub(pow2(w), big.NewInt(1))
	}
	kind := 10 + int(w)
	if signed {
		kind += 1000
	}
	if ex.fact(t, kind, func() *Term { return c.Or(c.Lt(t, c.IntBig(lo)), c.Gt(t, c.IntBig(hi))) }) {
		return t
	}
	return r
}

// truncDiv / truncRem: Go semantics, with sign cases resolved through the PC where possible.
func (ex *Exec) truncDiv(a, b *Term) *Term {
	c := ex.ctx
	if a.isConst && b.isConst {
		return c.TruncDiv(a, b)
	}
	if a.op == "*" && !b.isConst && (a.args[0] == b || a.args[1] == b) {
		// exact division (b != 0 is an obligation checked by the caller)
		if a.args[1] == b {
			return a.args[0]
		}
		return a.args[1]
	}
	an, bp := ex.knownNonNeg(a), ex.knownPos(b)
	if an && bp {
		return c.DivE(a, b)
	}
	if bp && ex.knownNeg(a) {
		return c.Neg(c.DivE(c.Neg(a), b))
	}
	if bp {
		// b > 0: trunc(a/b) = a>=0 ? a div b : -((-a) div b)
		return c.Ite(c.Ge(a, c.Int(0)), c.DivE(a, b), c.Neg(c.DivE(c.Neg(a), b)))
	}
	return c.TruncDiv(a, b)
}

func (ex *Exec) truncRem(a, b *Term) *Term {
	c := ex.ctx
	if a.isConst && b.isConst {
		return c.TruncRem(a, b)
	}
	an, bp := ex.knownNonNeg(a), ex.knownPos(b)
	if an && bp {
		return c.ModE(a, b)
	}
	if bp {
		return c.Ite(c.Ge(a, c.Int(0)), c.ModE(a, b), c.Neg(c.ModE(c.Neg(a), b)))
	}
	return c.TruncRem(a, b)
}

func (ex *Exec) absPC(t *Term) *Term {
	if ex.knownNonNeg(t) {
		return t
	}
	if ex.knownNeg(t) {
		return ex.ctx.Neg(t)
	}
	return ex.ctx.Ite(ex.ctx.Ge(t, ex.ctx.Int(0)), t, ex.ctx.Neg(t))
}
