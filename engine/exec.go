package main

import (
	"fmt"
	"go/constant"
	"go/token"
	"go/types"
	"math/big"
	"os"
	"runtime/debug"
	"strings"

	"golang.org/x/tools/go/ssa"
)

type Frame struct {
	fn        *ssa.Function
	caller    *Frame
	env       map[ssa.Value]Value
	locals    []*Value
	block     *ssa.BasicBlock
	prev      *ssa.BasicBlock
	defers    []deferred
	result    Value
	panicking bool
	panicVal  interface{}
	backEdges map[*ssa.BasicBlock]int
}

type deferred struct {
	fnv  Value
	args []Value
	call *ssa.CallCommon
}

type HarnessCfg struct {
	Name         string            `json:"name"`     // harness function name
	Pkg          string            `json:"pkg"`      // import path
	Unwind       int               `json:"unwind"`   // loop bound
	MaxDepth     int               `json:"maxdepth"` // call depth
	MaxPaths     int               `json:"maxpaths"` //
	MaxSteps     int               `json:"maxsteps"` // per path
	MapOrder     string            `json:"maporder"` // "insertion" | "nondet"
	Stubs        map[string]string `json:"stubs"`    // real function -> harness function (same pkg)
	Reach        []string          `json:"reach"`    // labels that must be reachable
	PanicOK      bool              `json:"panic_ok"` // panics are accepted outcomes
	TimeoutMs    int               `json:"timeout_ms"`
	Tiers        []string          `json:"tiers"`  // tiers in which this harness runs (empty = all)
	Params       map[string]int    `json:"params"` // harness parameters per tier read through verif_param
	NoReplay     bool              `json:"noreplay"`
	FactorSimp   bool              `json:"factor_simp"`   // term builder keeps constant factors together and cancels them against constant divisors
	IncBudgetMs  int               `json:"inc_budget_ms"` // incremental-solver budget per query before the one-shot portfolio is asked (0 = full timeout first)
	Interfere    string            `json:"interfere"`     // harness function run before every atomic operation and lock acquisition of the executed thread: what other goroutines may do to shared words there (no native counterpart: set noreplay)
	SingleThread bool              `json:"single_thread"` // no other goroutine exists: TryLock succeeds iff the executed thread does not hold the lock
}

type Exec struct {
	prog *ssa.Program
	ctx  *Ctx
	sol  *Solver
	cfg  *HarnessCfg
	pkg  *ssa.Package // harness package
	eng  *Engine

	// per path
	pc        []*Term
	prefix    []int
	pos       int
	decisions []int
	globals   map[*ssa.Global]*Value
	initState map[*ssa.Package]int // 1 running, 2 done
	nondetCnt map[string]int
	concrete  map[string]string // forked nondet values for replay (name -> value)
	known     map[string]*Term  // known-finding regions declared on this path
	steps     int
	depth     int
	lenient   int
	inInit    int
	// map-order schemes set by verif_maporder: 0 insertion order, 1 every map range reversed, 2 only the flipSite-th
	// map range (counted from the call, maps with at least two entries) reversed
	flipMode, flipSite, mapRangeCount int
	globalMut bool
	mutexHeld map[*Value]int
	goSkipped map[string]bool
	observed  map[string]Value

	initStored    map[*ssa.Global]bool
	initStack     []*ssa.Package
	curDeferFrame []*Frame
	chanCnt       int
	onceDone      map[*Value]bool
	interfereFn   *ssa.Function
	inInterfere   bool
	opaqueCnt     int
	boxes         []Value // verif_box table (codec model): deep copies of marshalled values, per path
	lastNow       *Term
	callStack     []string
	abortStack    string
	facts         map[factKey]bool

	// accumulated over paths
	work      [][]int
	res       *HarnessResult
	funcsSeen map[string]bool
	modelsHit map[string]bool
	stubsHit  map[string]bool
}

func (ex *Exec) resetPath(prefix []int) {
	ex.pc = nil
	ex.prefix = prefix
	ex.pos = 0
	ex.decisions = nil
	if ex.globals == nil || ex.globalMut {
		ex.globals = map[*ssa.Global]*Value{}
		ex.initState = map[*ssa.Package]int{}
		ex.globalMut = false
	}
	ex.nondetCnt = map[string]int{}
	ex.concrete = map[string]string{}
	ex.known = map[string]*Term{}
	ex.steps = 0
	ex.depth = 0
	ex.lenient = 0
	ex.inInit = 0
	ex.flipMode, ex.flipSite, ex.mapRangeCount = 0, 0, 0
	ex.mutexHeld = map[*Value]int{}
	ex.observed = map[string]Value{}
	ex.curDeferFrame = nil
	ex.chanCnt = 0
	ex.onceDone = nil
	ex.inInterfere = false
	ex.opaqueCnt = 0
	ex.boxes = nil
	ex.lastNow = nil
	ex.callStack = nil
	ex.abortStack = ""
}

// ---------- path forking by re-execution ----------

// choose picks one of the alternatives (guards must be exhaustive). Returns index.
func (ex *Exec) choose(guards []*Term) int {
	if ex.pos < len(ex.prefix) {
		i := ex.prefix[ex.pos]
		ex.pos++
		ex.decisions = append(ex.decisions, i)
		if guards[i] != nil {
			ex.pc = append(ex.pc, guards[i])
		}
		return i
	}
	var feas []int
	for i, g := range guards {
		if g == nil {
			feas = append(feas, i)
			continue
		}
		if g.isConst {
			if g.cBool {
				feas = append(feas, i)
			}
			continue
		}
		// last alternative with none feasible so far must be feasible (guards exhaustive, PC sat)
		if i == len(guards)-1 && len(feas) == 0 {
			feas = append(feas, i)
			continue
		}
		r, _, _ := ex.sol.Check(append(append([]*Term{}, ex.pc...), g), ex.eng.feasTimeout, false)
		if r != "unsat" {
			feas = append(feas, i)
		}
	}
	if len(feas) == 0 {
		panic(pathEnd{"infeasible"})
	}
	for _, i := range feas[1:] {
		np := append(append([]int{}, ex.decisions...), i)
		ex.work = append(ex.work, np)
	}
	i := feas[0]
	ex.pos++
	ex.prefix = append(ex.prefix, i) // keep prefix aligned
	ex.decisions = append(ex.decisions, i)
	if guards[i] != nil {
		ex.pc = append(ex.pc, guards[i])
	}
	return i
}

func (ex *Exec) branch(cond *Term) bool {
	if cond.isConst {
		return cond.cBool
	}
	return ex.choose([]*Term{cond, ex.ctx.Not(cond)}) == 0
}

func (ex *Exec) assume(cond *Term) {
	if cond.isConst {
		if !cond.cBool {
			panic(pathEnd{"assume false"})
		}
		return
	}
	ex.pc = append(ex.pc, cond)
	r, _, _ := ex.sol.Check(ex.pc, ex.eng.feasTimeout, false)
	if r == "unsat" {
		panic(pathEnd{"assume infeasible"})
	}
}

// obligation: a condition that must hold, else Go panics (index out of range etc.)
func (ex *Exec) mustHold(cond *Term, what string) {
	if cond.isConst {
		if !cond.cBool {
			panic(goPanic{msg: what})
		}
		return
	}
	if !ex.branch(cond) {
		panic(goPanic{msg: what})
	}
}

// ---------- globals and package init ----------

func (ex *Exec) global(g *ssa.Global) *Value {
	if p, ok := ex.globals[g]; ok {
		return p
	}
	ex.ensureInit(g.Pkg)
	if p, ok := ex.globals[g]; ok {
		return p
	}
	p := new(Value)
	*p = ex.zero(g.Type().(*types.Pointer).Elem())
	ex.globals[g] = p
	return p
}

func (ex *Exec) allocGlobal(g *ssa.Global) *Value {
	if p, ok := ex.globals[g]; ok {
		return p
	}
	p := new(Value)
	func() {
		defer func() {
			if r := recover(); r != nil {
				if _, ok := r.(inconclusive); ok {
					*p = Unknown{"global of unsupported type " + g.String()}
					return
				}
				panic(r)
			}
		}()
		*p = ex.zero(g.Type().(*types.Pointer).Elem())
	}()
	ex.globals[g] = p
	return p
}

func (ex *Exec) ensureInit(pkg *ssa.Package) {
	if pkg == nil || ex.initState[pkg] != 0 {
		return
	}
	ex.initState[pkg] = 1
	pkg.Build()
	for _, m := range pkg.Members {
		if g, ok := m.(*ssa.Global); ok {
			ex.allocGlobal(g)
		}
	}
	if ex.eng.skipInit[pkg.Pkg.Path()] {
		ex.initState[pkg] = 2
		return
	}
	initFn := pkg.Func("init")
	if initFn == nil || initFn.Blocks == nil {
		ex.initState[pkg] = 2
		return
	}
	ex.lenient++
	ex.inInit++
	if os.Getenv("VERIF_INITPROF") != "" {
		st0 := ex.steps
		defer func() { fmt.Fprintf(os.Stderr, "INITPROF %s steps=%d\n", pkg.Pkg.Path(), ex.steps-st0) }()
	}
	ex.initStack = append(ex.initStack, pkg)
	defer func() { ex.initStack = ex.initStack[:len(ex.initStack)-1] }()
	savedDepth := ex.depth
	stored := map[*ssa.Global]bool{}
	ex.initStored = stored
	func() {
		defer func() {
			if r := recover(); r != nil {
				switch r := r.(type) {
				case inconclusive, goPanic:
					_ = r
					// init incomplete: poison globals that init would still have written
					for _, b := range initFn.Blocks {
						for _, in := range b.Instrs {
							if st, ok := in.(*ssa.Store); ok {
								if g, ok := st.Addr.(*ssa.Global); ok && !stored[g] {
									*ex.allocGlobal(g) = Unknown{fmt.Sprintf("package init of %s incomplete (%v)", pkg.Pkg.Path(), r)}
								}
							}
						}
					}
				default:
					panic(r)
				}
			}
		}()
		ex.callFn(initFn, nil, nil)
	}()
	ex.initStored = nil
	ex.depth = savedDepth
	ex.lenient--
	ex.inInit--
	ex.initState[pkg] = 2
}

var initDenyPrefixes = []string{
	"github.com/cosmos/gogoproto/", "github.com/gogo/protobuf/", "github.com/golang/protobuf/", "google.golang.org/protobuf/",
	"encoding/json", "compress/", "regexp", "text/template", "html/template",
	"github.com/cosmos/cosmos-sdk/codec/types", "github.com/cosmos/cosmos-sdk/codec/legacy", "github.com/cosmos/cosmos-sdk/types/msgservice",
	"github.com/tendermint/go-amino", "github.com/prometheus/", "github.com/spf13/", "google.golang.org/grpc",
}

func initDenied(path string) bool {
	for _, p := range initDenyPrefixes {
		if strings.HasPrefix(path, p) {
			return true
		}
	}
	return false
}

// ---------- calls ----------

func fnKey(fn *ssa.Function) string {
	if o := fn.Origin(); o != nil {
		return o.String()
	}
	return fn.String()
}

func (ex *Exec) callValue(fnv Value, args []Value, cc *ssa.CallCommon) Value {
	switch f := fnv.(type) {
	case *ssa.Function:
		if f == nil {
			panic(goPanic{msg: "call of nil function"})
		}
		return ex.callFn(f, args, nil)
	case *Closure:
		if f == nil {
			panic(goPanic{msg: "call of nil closure"})
		}
		return ex.callFn(f.fn, args, f.env)
	case *ssa.Builtin:
		return ex.callBuiltin(f, args, cc)
	case Unknown:
		ex.incon("call of unknown function value: %s", f.why)
	}
	ex.incon("call of unsupported function value %T", fnv)
	return nil
}

func (ex *Exec) callFn(fn *ssa.Function, args []Value, env []Value) (result Value) {
	key := fnKey(fn)
	if ex.inInit > 0 && fn.Name() == "init" && fn.Synthetic != "" && env == nil && len(ex.initStack) > 0 && ex.initStack[len(ex.initStack)-1] != fn.Pkg {
		// nested package initialisation: done lazily on first access to that package's globals
		return nil
	}
	if ex.inInit == 0 {
		if stub, ok := ex.cfg.Stubs[key]; ok {
			sf := ex.pkg.Func(stub)
			if sf == nil {
				panic(fatalErr{"stub function not found in harness package: " + stub})
			}
			ex.stubsHit[key+" -> "+stub] = true
			fn = sf
			key = fnKey(fn)
		}
	}
	if m, ok := models[key]; ok {
		ex.modelsHit[key] = true
		return m(ex, fn, args)
	}
	if pm := prefixModel(key); pm != nil {
		ex.modelsHit[key] = true
		return pm(ex, fn, args)
	}
	if ex.inInit > 0 && fn.Pkg != nil && initDenied(fn.Pkg.Pkg.Path()) {
		// registration / reflection machinery called from package initialisers (protobuf descriptors, amino, json,
		// regexp compilation): not executed; its results are unknown values (any later use is reported as inconclusive)
		n := fn.Signature.Results().Len()
		why := Unknown{"init-time call not executed: " + key}
		if n == 0 {
			return nil
		}
		if n == 1 {
			return why
		}
		t := make(Tuple, n)
		for i := range t {
			t[i] = why
		}
		return t
	}
	if fn.Blocks == nil {
		if fn.Pkg != nil {
			fn.Pkg.Build()
		}
		if fn.Blocks == nil {
			ex.incon("function without body (external/asm) and no model: %s", key)
		}
	}
	if ex.inInit == 0 && fn.Pkg != nil {
		ex.funcsSeen[key] = true
	}
	ex.depth++
	ex.callStack = append(ex.callStack, key)
	if ex.depth > ex.cfg.MaxDepth {
		ex.depth--
		ex.incon("call depth bound %d exceeded at %s", ex.cfg.MaxDepth, key)
	}
	defer func() {
		ex.depth--
		if r := recover(); r != nil {
			// keep the stack for diagnostics of aborting outcomes
			switch r.(type) {
			case inconclusive, fatalErr, unknownUse:
				if ex.abortStack == "" {
					n := len(ex.callStack)
					lo := n - 8
					if lo < 0 {
						lo = 0
					}
					ex.abortStack = strings.Join(ex.callStack[lo:n], " > ")
				}
			}
			if gp, isgp := r.(goPanic); isgp && gp.stack == "" && panicStackDiag {
				n := len(ex.callStack)
				lo := n - 10
				if lo < 0 {
					lo = 0
				}
				gp.stack = strings.Join(ex.callStack[lo:n], " > ")
				gp.msg += " [stack: " + gp.stack + "]"
				r = gp
			}
			ex.callStack = ex.callStack[:len(ex.callStack)-1]
			panic(r)
		}
		ex.callStack = ex.callStack[:len(ex.callStack)-1]
	}()
	fr := &Frame{fn: fn, env: map[ssa.Value]Value{}, backEdges: map[*ssa.BasicBlock]int{}}
	for i, p := range fn.Params {
		if i < len(args) {
			fr.env[p] = args[i]
		}
	}
	for i, fv := range fn.FreeVars {
		fr.env[fv] = env[i]
	}
	fr.block = fn.Blocks[0]
	fr.locals = make([]*Value, len(fn.Locals))
	for fr.block != nil {
		ex.runFrame(fr)
	}
	return fr.result
}

func (ex *Exec) runFrame(fr *Frame) {
	defer func() {
		if fr.block == nil {
			return
		}
		r := recover()
		gp, ok := r.(goPanic)
		if !ok {
			panic(r)
		}
		fr.panicking = true
		fr.panicVal = gp
		ex.runDefers(fr)
		// recovered
		fr.block = fr.fn.Recover
		if fr.block == nil {
			// no named results: return zero values
			res := fr.fn.Signature.Results()
			switch res.Len() {
			case 0:
				fr.result = nil
			case 1:
				fr.result = ex.zero(res.At(0).Type())
			default:
				fr.result = ex.zero(res)
			}
		}
	}()
	for {
		if ex.eng.trace {
			fmt.Printf("%s.%d (%s)\n", fr.fn, fr.block.Index, fr.block.Comment)
		}
	block:
		for _, instr := range fr.block.Instrs {
			ex.steps++
			ex.res.Instrs++
			if ex.steps > ex.cfg.MaxSteps {
				ex.incon("step bound %d exceeded in %s", ex.cfg.MaxSteps, fr.fn)
			}
			switch ex.visit(fr, instr) {
			case kReturn:
				return
			case kJump:
				break block
			}
		}
	}
}

func (ex *Exec) runDefers(fr *Frame) {
	for i := len(fr.defers) - 1; i >= 0; i-- {
		d := fr.defers[i]
		fr.defers = fr.defers[:i]
		ex.runDefer(fr, d)
	}
	fr.defers = nil
	if fr.panicking {
		panic(fr.panicVal)
	}
}

func (ex *Exec) runDefer(fr *Frame, d deferred) {
	var ok bool
	defer func() {
		if !ok {
			r := recover()
			if gp, isgp := r.(goPanic); isgp {
				fr.panicking = true
				fr.panicVal = gp
				return
			}
			panic(r)
		}
	}()
	ex.curDeferFrame = append(ex.curDeferFrame, fr)
	defer func() { ex.curDeferFrame = ex.curDeferFrame[:len(ex.curDeferFrame)-1] }()
	ex.callValue(d.fnv, d.args, d.call)
	ok = true
}

const (
	kNext = iota
	kReturn
	kJump
)

func (ex *Exec) get(fr *Frame, v ssa.Value) Value {
	switch v := v.(type) {
	case *ssa.Const:
		return ex.constVal(v)
	case *ssa.Global:
		return ex.global(v)
	case *ssa.Function:
		return v
	case *ssa.Builtin:
		return v
	}
	if r, ok := fr.env[v]; ok {
		return r
	}
	panic(fatalErr{fmt.Sprintf("get: no value for %T %s in %s", v, v.Name(), fr.fn)})
}

func (ex *Exec) constVal(c *ssa.Const) Value {
	t := c.Type()
	if c.Value == nil {
		return ex.zero(t)
	}
	if tp, ok := t.(*types.TypeParam); ok {
		_ = tp
		ex.incon("constant of type parameter")
	}
	bt, ok := t.Underlying().(*types.Basic)
	if !ok {
		ex.incon("constant of non-basic type %s", t)
	}
	switch {
	case bt.Info()&types.IsBoolean != 0:
		return ex.ctx.Bool(constant.BoolVal(c.Value))
	case bt.Info()&types.IsInteger != 0:
		v := constant.ToInt(c.Value)
		if bi, ok := constant.Val(v).(*big.Int); ok {
			return ex.ctx.IntBig(bi)
		}
		if i64, ok := constant.Val(v).(int64); ok {
			return ex.ctx.Int(i64)
		}
		ex.incon("bad int constant %s", c)
	case bt.Info()&types.IsFloat != 0:
		f, _ := constant.Float64Val(constant.ToFloat(c.Value))
		return Float{f}
	case bt.Info()&types.IsString != 0:
		if c.Value.Kind() == constant.String {
			return Str{s: constant.StringVal(c.Value)}
		}
		// int -> string conversion constant
		i, _ := constant.Int64Val(constant.ToInt(c.Value))
		return Str{s: string(rune(i))}
	case bt.Info()&types.IsComplex != 0:
		return Unknown{"complex constant"}
	}
	ex.incon("constant: unsupported %s", c)
	return nil
}

func (ex *Exec) load(p Value, what string) Value {
	switch p := p.(type) {
	case *Value:
		if p == nil {
			panic(goPanic{msg: "nil pointer dereference (" + what + ")"})
		}
		return copyVal(*p)
	case Unknown:
		if ex.lenient > 0 {
			return p
		}
		ex.incon("load through unknown pointer: %s", p.why)
	case nil:
		panic(goPanic{msg: "nil pointer dereference (" + what + ")"})
	}
	ex.incon("load: unsupported pointer %T (%s)", p, what)
	return nil
}

func (ex *Exec) store(p Value, v Value, what string) {
	switch p := p.(type) {
	case *Value:
		if p == nil {
			panic(goPanic{msg: "nil pointer dereference on store (" + what + ")"})
		}
		*p = copyVal(v)
		return
	case Unknown:
		if ex.lenient > 0 {
			return
		}
		ex.incon("store through unknown pointer: %s", p.why)
	case nil:
		panic(goPanic{msg: "nil pointer dereference on store (" + what + ")"})
	}
	ex.incon("store: unsupported pointer %T (%s)", p, what)
}

func (ex *Exec) asTerm(v Value, what string) *Term {
	switch v := v.(type) {
	case *Term:
		return v
	case Unknown:
		panic(unknownUse{v})
	}
	ex.incon("%s: expected scalar, got %T", what, v)
	return nil
}

type unknownUse struct{ u Unknown }

func (ex *Exec) visit(fr *Frame, instr ssa.Instruction) (k int) {
	// Unknown propagation: in lenient mode an operation on Unknown yields Unknown.
	defer func() {
		if r := recover(); r != nil {
			if uu, ok := r.(unknownUse); ok {
				if ex.lenient > 0 {
					if v, isv := instr.(ssa.Value); isv {
						fr.env[v] = uu.u
						k = kNext
						return
					}
					switch instr.(type) {
					case *ssa.Store, *ssa.MapUpdate, *ssa.DebugRef:
						k = kNext
						return
					}
				}
				panic(inconclusive{"use of unknown value in " + fr.fn.String() + ": " + uu.u.why})
			}
			panic(r)
		}
	}()
	switch in := instr.(type) {
	case *ssa.DebugRef:
	case *ssa.UnOp:
		fr.env[in] = ex.unop(fr, in)
	case *ssa.BinOp:
		fr.env[in] = ex.binop(in.Op, in.X.Type(), ex.get(fr, in.X), ex.get(fr, in.Y), in.Y.Type())
	case *ssa.Call:
		fnv, args := ex.prepareCall(fr, &in.Call)
		if ex.lenient > 0 {
			fr.env[in] = ex.lenientCall(fnv, args, &in.Call)
		} else {
			fr.env[in] = ex.callValue(fnv, args, &in.Call)
		}
	case *ssa.ChangeInterface:
		fr.env[in] = ex.get(fr, in.X)
	case *ssa.ChangeType:
		fr.env[in] = ex.get(fr, in.X)
	case *ssa.Convert:
		fr.env[in] = ex.convert(in.X.Type(), in.Type(), ex.get(fr, in.X))
	case *ssa.MultiConvert:
		fr.env[in] = ex.convert(in.X.Type(), in.Type(), ex.get(fr, in.X))
	case *ssa.SliceToArrayPointer:
		s := ex.get(fr, in.X).(SliceV)
		n := int(in.Type().(*types.Pointer).Elem().Underlying().(*types.Array).Len())
		if len(s) < n {
			panic(goPanic{msg: "slice to array pointer: slice too short"})
		}
		if s == nil {
			fr.env[in] = (*Value)(nil)
		} else {
			// share backing: build Array aliasing is not possible with separate representation; copy (documented limitation)
			p := new(Value)
			a := make(Array, n)
			copy(a, s[:n])
			*p = a
			fr.env[in] = p
		}
	case *ssa.MakeInterface:
		v := ex.get(fr, in.X)
		if u, ok := v.(Unknown); ok {
			fr.env[in] = u
		} else {
			fr.env[in] = Iface{t: in.X.Type(), v: v}
		}
	case *ssa.Extract:
		tv := ex.get(fr, in.Tuple)
		switch tv := tv.(type) {
		case Tuple:
			fr.env[in] = tv[in.Index]
		case Unknown:
			fr.env[in] = tv
		default:
			panic(fatalErr{fmt.Sprintf("extract from %T in %s", tv, fr.fn)})
		}
	case *ssa.Slice:
		fr.env[in] = ex.sliceOp(fr, in)
	case *ssa.Return:
		switch len(in.Results) {
		case 0:
		case 1:
			fr.result = ex.get(fr, in.Results[0])
		default:
			res := make(Tuple, len(in.Results))
			for i, r := range in.Results {
				res[i] = ex.get(fr, r)
			}
			fr.result = res
		}
		fr.block = nil
		return kReturn
	case *ssa.RunDefers:
		ex.runDefers(fr)
	case *ssa.Panic:
		v := ex.get(fr, in.X)
		panic(goPanic{val: v, msg: "explicit panic: " + ex.describePanic(v)})
	case *ssa.Send:
		ex.incon("channel send in %s", fr.fn)
	case *ssa.Store:
		if g, ok := in.Addr.(*ssa.Global); ok {
			if ex.inInit == 0 {
				ex.globalMut = true
			} else if ex.initStored != nil {
				ex.initStored[g] = true
			}
		}
		ex.store(ex.get(fr, in.Addr), ex.get(fr, in.Val), in.Addr.Name())
	case *ssa.If:
		cv := ex.get(fr, in.Cond)
		if u, ok := cv.(Unknown); ok {
			panic(inconclusive{"branch on unknown value in " + fr.fn.String() + ": " + u.why})
		}
		succ := 1
		if ex.branch(cv.(*Term)) {
			succ = 0
		}
		fr.prev, fr.block = fr.block, fr.block.Succs[succ]
		ex.countBackEdge(fr)
		return kJump
	case *ssa.Jump:
		fr.prev, fr.block = fr.block, fr.block.Succs[0]
		ex.countBackEdge(fr)
		return kJump
	case *ssa.Defer:
		fnv, args := ex.prepareCall(fr, &in.Call)
		fr.defers = append(fr.defers, deferred{fnv, args, &in.Call})
	case *ssa.Go:
		name := "?"
		if f := in.Call.StaticCallee(); f != nil {
			name = f.String()
		} else if in.Call.Method != nil {
			name = in.Call.Method.FullName()
		}
		ex.res.GoSkipped[name] = true
	case *ssa.MakeChan:
		ex.chanCnt++
		fr.env[in] = &ChanV{ex.chanCnt}
	case *ssa.Alloc:
		var addr *Value
		if in.Heap {
			addr = new(Value)
		} else {
			addr = new(Value)
		}
		*addr = ex.zero(in.Type().(*types.Pointer).Elem())
		fr.env[in] = addr
	case *ssa.MakeSlice:
		n := ex.concreteInt(ex.get(fr, in.Len), "make slice len")
		c := ex.concreteInt(ex.get(fr, in.Cap), "make slice cap")
		if n < 0 || c < n {
			panic(goPanic{msg: "makeslice: len out of range"})
		}
		if c > 1<<22 {
			ex.incon("makeslice too large: %d", c)
		}
		s := make(SliceV, n, c)
		et := in.Type().Underlying().(*types.Slice).Elem()
		for i := range s {
			s[i] = ex.zero(et)
		}
		fr.env[in] = s
	case *ssa.MakeMap:
		fr.env[in] = &MapV{kt: in.Type().Underlying().(*types.Map).Key()}
	case *ssa.Range:
		fr.env[in] = ex.rangeIter(ex.get(fr, in.X))
	case *ssa.Next:
		fr.env[in] = ex.next(fr, in)
	case *ssa.FieldAddr:
		p := ex.get(fr, in.X)
		switch p := p.(type) {
		case *Value:
			if p == nil {
				panic(goPanic{msg: fmt.Sprintf("nil pointer dereference (field %d of %s in %s)", in.Field, in.X.Name(), fr.fn)})
			}
			s, ok := (*p).(Struct)
			if !ok {
				if u, isu := (*p).(Unknown); isu {
					panic(unknownUse{u})
				}
				if _, isb := (*p).(BigVal); isb {
					ex.incon("direct field access into big.Int (unmodelled big.Int operation) in %s", fr.fn)
				}
				panic(fatalErr{fmt.Sprintf("FieldAddr on %T in %s", *p, fr.fn)})
			}
			fr.env[in] = &s[in.Field]
		case Unknown:
			panic(unknownUse{p})
		default:
			panic(fatalErr{fmt.Sprintf("FieldAddr on pointer %T in %s", p, fr.fn)})
		}
	case *ssa.Field:
		x := ex.get(fr, in.X)
		switch x := x.(type) {
		case Struct:
			fr.env[in] = copyVal(x[in.Field])
		case Unknown:
			panic(unknownUse{x})
		default:
			panic(fatalErr{fmt.Sprintf("Field on %T in %s", x, fr.fn)})
		}
	case *ssa.IndexAddr:
		fr.env[in] = ex.indexAddr(fr, in)
	case *ssa.Index:
		fr.env[in] = ex.index(fr, in)
	case *ssa.Lookup:
		fr.env[in] = ex.lookup(fr, in)
	case *ssa.MapUpdate:
		m := ex.get(fr, in.Map)
		if u, ok := m.(Unknown); ok {
			panic(unknownUse{u})
		}
		ex.mapUpdate(m.(*MapV), ex.get(fr, in.Key), ex.get(fr, in.Value))
	case *ssa.TypeAssert:
		fr.env[in] = ex.typeAssert(fr, in)
	case *ssa.MakeClosure:
		var env []Value
		for _, b := range in.Bindings {
			env = append(env, ex.get(fr, b))
		}
		fr.env[in] = &Closure{in.Fn.(*ssa.Function), env}
	case *ssa.Phi:
		for i, pred := range in.Block().Preds {
			if fr.prev == pred {
				fr.env[in] = ex.get(fr, in.Edges[i])
				break
			}
		}
	case *ssa.Select:
		ex.incon("select statement in %s", fr.fn)
	default:
		ex.incon("unsupported instruction %T in %s", instr, fr.fn)
	}
	return kNext
}

func (ex *Exec) describePanic(v Value) string {
	if i, ok := v.(Iface); ok {
		if s, ok := i.v.(Str); ok {
			return s.s
		}
		if i.t != nil {
			return i.t.String()
		}
	}
	return showVal(v)
}

func (ex *Exec) countBackEdge(fr *Frame) {
	// a jump to a block with index <= current block index that dominates... approximate: target index <= source index
	if fr.block.Index <= fr.prev.Index {
		fr.backEdges[fr.block]++
		if fr.backEdges[fr.block] > ex.cfg.Unwind {
			if ex.inInit > 0 && fr.backEdges[fr.block] < 100000 {
				return
			}
			// bound hit on a feasible path (PC is kept feasible eagerly)
			panic(unwindHit{fmt.Sprintf("%s block %d", fr.fn, fr.block.Index)})
		}
	}
}

type unwindHit struct{ where string }

func (ex *Exec) lenientCall(fnv Value, args []Value, cc *ssa.CallCommon) (res Value) {
	savedDepth := ex.depth
	defer func() {
		if r := recover(); r != nil {
			switch r := r.(type) {
			case inconclusive:
				ex.depth = savedDepth
				res = Unknown{r.reason}
			case unwindHit:
				ex.depth = savedDepth
				res = Unknown{"loop bound in init: " + r.where}
			case fatalErr:
				ex.depth = savedDepth
				res = Unknown{"unsupported code in init: " + r.msg}
			case unknownUse:
				ex.depth = savedDepth
				res = r.u
			case goPanic:
				// a package initialiser that really panicked would stop every binary and test at start-up; inside init a
				// panic is therefore an artefact of an unmodelled callee: the call's result is unknown, init goes on
				if ex.inInit == 0 {
					panic(r)
				}
				ex.depth = savedDepth
				res = Unknown{"panic in init callee: " + r.msg}
			default:
				panic(r)
			}
		}
	}()
	return ex.callValue(fnv, args, cc)
}

func (ex *Exec) prepareCall(fr *Frame, cc *ssa.CallCommon) (Value, []Value) {
	var args []Value
	var fnv Value
	if cc.Method == nil {
		fnv = ex.get(fr, cc.Value)
	} else {
		recv := ex.get(fr, cc.Value)
		if u, ok := recv.(Unknown); ok {
			panic(unknownUse{u})
		}
		ri := recv.(Iface)
		if ri.t == nil {
			panic(goPanic{msg: "nil interface method call " + cc.Method.Name() + " in " + fr.fn.String()})
		}
		f := ex.lookupMethod(ri.t, cc.Method)
		if f == nil {
			ex.incon("method %s not found on dynamic type %s", cc.Method.Name(), ri.t)
		}
		fnv = f
		args = append(args, ri.v)
	}
	for _, a := range cc.Args {
		args = append(args, ex.get(fr, a))
	}
	return fnv, args
}

func (ex *Exec) lookupMethod(t types.Type, m *types.Func) *ssa.Function {
	sel := ex.prog.MethodSets.MethodSet(t).Lookup(m.Pkg(), m.Name())
	if sel == nil {
		return nil
	}
	return ex.prog.MethodValue(sel)
}

func (ex *Exec) concreteInt(v Value, what string) int {
	t := ex.asTerm(v, what)
	if !t.isConst {
		// fork over a small interval if known
		if t.lo != nil && t.hi != nil {
			w := new(big.Int).Sub(t.hi, t.lo)
			if w.IsInt64() && w.Int64() <= 16 {
				var guards []*Term
				lo := t.lo.Int64()
				for i := int64(0); i <= w.Int64(); i++ {
					guards = append(guards, ex.ctx.Eq(t, ex.ctx.Int(lo+i)))
				}
				return int(lo) + ex.choose(guards)
			}
		}
		ex.incon("%s must be concrete (symbolic size/index with wide range)", what)
	}
	if !t.cInt.IsInt64() {
		panic(goPanic{msg: what + ": out of range"})
	}
	return int(t.cInt.Int64())
}

func posString(prog *ssa.Program, p token.Pos) string {
	if !p.IsValid() {
		return "?"
	}
	ps := prog.Fset.Position(p)
	f := ps.Filename
	if i := strings.LastIndex(f, "/"); i >= 0 {
		f = f[i+1:]
	}
	return fmt.Sprintf("%s:%d", f, ps.Line)
}

func stackTrace() string { return string(debug.Stack()) }
