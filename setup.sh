#!/bin/sh
# builds the symbolic executor from /verif/engine (offline; x/tools v0.29.0 from the module cache)
cd "$(dirname "$0")" || exit 1
export GOFLAGS=-mod=mod GOPROXY=off GOSUMDB=off GOTOOLCHAIN=local
(cd engine && go build -o ../bin/gosym .) || exit 1
echo "gosym built"
