#!/bin/sh
# Builds the symbolic executor from /verif/engine (offline; x/tools v0.29.0 from the module cache), then warms the
# Go build cache for the packages the native replays compile (non-fatal; only saves time in the first check).
cd "$(dirname "$0")" || exit 1
export GOFLAGS=-mod=mod GOPROXY=off GOSUMDB=off GOTOOLCHAIN=local
(cd engine && go build -o ../bin/gosym .) || exit 1
echo "gosym built"
REPO=${VERIF_REPO:-/repo}
pkgs=$(sed -n 's/.*"pkg": *"github.com\/lavanet\/lava\/v5\/\([^"]*\)".*/.\/\1/p' checks/C*.json | sort -u | tr '\n' ' ')
if [ -n "$pkgs" ] && [ -d "$REPO" ]; then
  (cd "$REPO" && timeout 1500 go test -vet=off -count=1 -run '^$' $pkgs >/dev/null 2>&1) && echo "replay build cache warm" || echo "note: cache warm-up skipped/failed (checks still work, first replay is slower)"
fi
exit 0
