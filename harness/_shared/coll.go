package PKGNAME

import "cosmossdk.io/collections"

// verifCollAdd: stub of (*collections.SchemaBuilder).addCollection for the symbolic run.  The real one validates the
// collection name against a package-level regexp (package initialisers are not executed by the encoder) and records the
// collection in the schema, which only genesis import/export reads.  Maps, items and their iterators are the real code.
func verifCollAdd(s *collections.SchemaBuilder, c collections.Collection) {}
