package PKGNAME

// Shared harness helper (injected into a package by "shared": {"<pkg dir>": ["kv"]} in the check config).
//
// Model of the Cosmos SDK store stack for the symbolic run:
//   - verifKV: a KVStore as an ascending list of (key, value) pairs; Get/Has/Set/Delete/Iterator/ReverseIterator with
//     the semantics documented in store/types (end exclusive, nil = unbounded, iterators see a snapshot);
//   - sdk.Context.KVStore is stubbed (check config) to verifKVStore, which hands out one verifKV per store key name;
//   - cachekv.NewStore / (*cachekv.Store).Get/Set/Has/Delete/Write are stubbed to a write-back overlay over the parent;
//   - verifCodec: Marshal/Unmarshal as box/unbox of the value (the protobuf wire encoding is outside the claim).
// The real prefix.Store, the keepers' key builders and all keeper logic run as real code on top of this model.
// In the native replay none of the stubs is active: verifCtx builds a real in-memory IAVL multistore and the real
// protobuf codec is used, so a counterexample is confirmed against the real store stack.

import (
	"io"
	"time"

	tmdb "github.com/cometbft/cometbft-db"
	"github.com/cometbft/cometbft/libs/log"
	tmproto "github.com/cometbft/cometbft/proto/tendermint/types"
	"github.com/cosmos/cosmos-sdk/codec"
	codectypes "github.com/cosmos/cosmos-sdk/codec/types"
	"github.com/cosmos/cosmos-sdk/store"
	"github.com/cosmos/cosmos-sdk/store/cachekv"
	storetypes "github.com/cosmos/cosmos-sdk/store/types"
	sdk "github.com/cosmos/cosmos-sdk/types"
)

type verifKVEnt struct{ k, v []byte }

type verifKV struct {
	ents   []verifKVEnt // ascending by key
	writes int          // number of Set/Delete calls (state-change observation)
}

func verifCmp(a, b []byte) int {
	n := len(a)
	if len(b) < n {
		n = len(b)
	}
	for i := 0; i < n; i++ {
		if a[i] < b[i] {
			return -1
		}
		if a[i] > b[i] {
			return 1
		}
	}
	if len(a) < len(b) {
		return -1
	}
	if len(a) > len(b) {
		return 1
	}
	return 0
}

func verifClone(b []byte) []byte {
	out := make([]byte, len(b))
	copy(out, b)
	return out
}

// position of the first entry with key >= key, and whether it is equal
func (s *verifKV) find(key []byte) (int, bool) {
	for i := range s.ents {
		c := verifCmp(s.ents[i].k, key)
		if c == 0 {
			return i, true
		}
		if c > 0 {
			return i, false
		}
	}
	return len(s.ents), false
}

func (s *verifKV) Get(key []byte) []byte {
	if key == nil {
		panic("nil key")
	}
	if i, ok := s.find(key); ok {
		return verifClone(s.ents[i].v)
	}
	return nil
}

func (s *verifKV) Has(key []byte) bool {
	if key == nil {
		panic("nil key")
	}
	_, ok := s.find(key)
	return ok
}

func (s *verifKV) Set(key, value []byte) {
	if key == nil || value == nil {
		panic("nil key or value")
	}
	s.writes++
	i, ok := s.find(key)
	if ok {
		s.ents[i].v = verifClone(value)
		return
	}
	n := make([]verifKVEnt, 0, len(s.ents)+1)
	n = append(n, s.ents[:i]...)
	n = append(n, verifKVEnt{verifClone(key), verifClone(value)})
	n = append(n, s.ents[i:]...)
	s.ents = n
}

func (s *verifKV) Delete(key []byte) {
	if key == nil {
		panic("nil key")
	}
	s.writes++
	if i, ok := s.find(key); ok {
		n := make([]verifKVEnt, 0, len(s.ents))
		n = append(n, s.ents[:i]...)
		n = append(n, s.ents[i+1:]...)
		s.ents = n
	}
}

func (s *verifKV) GetStoreType() storetypes.StoreType { return storetypes.StoreTypeDB }
func (s *verifKV) CacheWrap() storetypes.CacheWrap    { panic("verif: CacheWrap of the model store is not modelled") }
func (s *verifKV) CacheWrapWithTrace(w io.Writer, tc storetypes.TraceContext) storetypes.CacheWrap {
	panic("verif: CacheWrap of the model store is not modelled")
}

type verifIter struct {
	ents       []verifKVEnt
	pos        int
	start, end []byte
}

func (s *verifKV) collect(start, end []byte, reverse bool) *verifIter {
	it := &verifIter{start: start, end: end}
	for i := range s.ents {
		e := s.ents[i]
		if start != nil && verifCmp(e.k, start) < 0 {
			continue
		}
		if end != nil && verifCmp(e.k, end) >= 0 {
			continue
		}
		it.ents = append(it.ents, verifKVEnt{verifClone(e.k), verifClone(e.v)})
	}
	if reverse {
		for i, j := 0, len(it.ents)-1; i < j; i, j = i+1, j-1 {
			it.ents[i], it.ents[j] = it.ents[j], it.ents[i]
		}
	}
	return it
}

func (s *verifKV) Iterator(start, end []byte) storetypes.Iterator        { return s.collect(start, end, false) }
func (s *verifKV) ReverseIterator(start, end []byte) storetypes.Iterator { return s.collect(start, end, true) }

func (it *verifIter) Domain() ([]byte, []byte) { return it.start, it.end }
func (it *verifIter) Valid() bool              { return it.pos < len(it.ents) }
func (it *verifIter) Next() {
	if it.pos >= len(it.ents) {
		panic("iterator is invalid")
	}
	it.pos++
}
func (it *verifIter) Key() []byte {
	if it.pos >= len(it.ents) {
		panic("iterator is invalid")
	}
	return it.ents[it.pos].k
}
func (it *verifIter) Value() []byte {
	if it.pos >= len(it.ents) {
		panic("iterator is invalid")
	}
	return it.ents[it.pos].v
}
func (it *verifIter) Error() error { return nil }
func (it *verifIter) Close() error { return nil }

var _ tmdb.Iterator = (*verifIter)(nil)

// ---- store registry and Context.KVStore stub ----

var verifStores = map[string]*verifKV{}

func verifStoreByName(name string) *verifKV {
	s, ok := verifStores[name]
	if !ok {
		s = &verifKV{}
		verifStores[name] = s
	}
	return s
}

// stub of (sdk.Context).KVStore in the symbolic run
func verifKVStore(c sdk.Context, key storetypes.StoreKey) storetypes.KVStore {
	return verifStoreByName(key.Name())
}

// stub of (sdk.Context).BlockHeader in the symbolic run (the real one clones the header through protobuf reflection)
func verifCtxHeader(c sdk.Context) tmproto.Header {
	return tmproto.Header{Height: c.BlockHeight(), Time: c.BlockTime(), ChainID: c.ChainID()}
}

// ---- cachekv overlay model (stubs of cachekv.NewStore and (*cachekv.Store) methods) ----

type verifCacheEnt struct {
	k, v []byte
	del  bool
}
type verifCacheKV struct {
	parent storetypes.KVStore
	dirty  []verifCacheEnt
}

var verifCaches = map[*cachekv.Store]*verifCacheKV{}

func verifCacheNew(parent storetypes.KVStore) *cachekv.Store {
	s := new(cachekv.Store)
	verifCaches[s] = &verifCacheKV{parent: parent}
	return s
}

func (c *verifCacheKV) lookup(key []byte) int {
	for i := range c.dirty {
		if verifCmp(c.dirty[i].k, key) == 0 {
			return i
		}
	}
	return -1
}

func verifCacheGet(s *cachekv.Store, key []byte) []byte {
	c := verifCaches[s]
	if i := c.lookup(key); i >= 0 {
		if c.dirty[i].del {
			return nil
		}
		return verifClone(c.dirty[i].v)
	}
	return c.parent.Get(key)
}

func verifCacheHas(s *cachekv.Store, key []byte) bool { return verifCacheGet(s, key) != nil }

func verifCacheSet(s *cachekv.Store, key, value []byte) {
	if key == nil || value == nil {
		panic("nil key or value")
	}
	c := verifCaches[s]
	if i := c.lookup(key); i >= 0 {
		c.dirty[i].v, c.dirty[i].del = verifClone(value), false
		return
	}
	c.dirty = append(c.dirty, verifCacheEnt{k: verifClone(key), v: verifClone(value)})
}

func verifCacheDelete(s *cachekv.Store, key []byte) {
	c := verifCaches[s]
	if i := c.lookup(key); i >= 0 {
		c.dirty[i].v, c.dirty[i].del = nil, true
		return
	}
	c.dirty = append(c.dirty, verifCacheEnt{k: verifClone(key), del: true})
}

func verifCacheWrite(s *cachekv.Store) {
	c := verifCaches[s]
	for _, e := range c.dirty {
		if e.del {
			c.parent.Delete(e.k)
		} else {
			c.parent.Set(e.k, e.v)
		}
	}
	c.dirty = nil
}

// ---- codec ----

type verifCodec struct{ codec.Codec }

func (verifCodec) MustMarshal(o codec.ProtoMarshaler) []byte             { return verif_box(o) }
func (verifCodec) Marshal(o codec.ProtoMarshaler) ([]byte, error)        { return verif_box(o), nil }
func (verifCodec) MustUnmarshal(bz []byte, ptr codec.ProtoMarshaler)     { verif_unbox(bz, ptr) }
func (verifCodec) Unmarshal(bz []byte, ptr codec.ProtoMarshaler) error   { verif_unbox(bz, ptr); return nil }
func (verifCodec) MustMarshalLengthPrefixed(o codec.ProtoMarshaler) []byte { return verif_box(o) }
func (verifCodec) MustUnmarshalLengthPrefixed(bz []byte, ptr codec.ProtoMarshaler) {
	verif_unbox(bz, ptr)
}

// verifCdc: box/unbox codec in the symbolic run, the real protobuf codec natively
func verifCdc() codec.Codec {
	if verif_symbolic() {
		return verifCodec{}
	}
	return codec.NewProtoCodec(codectypes.NewInterfaceRegistry())
}

// ---- context ----

// verifCtx returns a context at the given height/time.  Symbolic run: a bare context (its KVStore method is stubbed
// to the model stores, which are emptied here).  Native replay: a real in-memory IAVL multistore with the given keys.
func verifCtx(height int64, unixTime int64, keys ...storetypes.StoreKey) sdk.Context {
	header := tmproto.Header{Height: height, Time: time.Unix(unixTime, 0).UTC(), ChainID: "lava"}
	if verif_symbolic() {
		verifStores = map[string]*verifKV{}
		verifCaches = map[*cachekv.Store]*verifCacheKV{}
		return sdk.Context{}.WithBlockHeader(header).WithChainID("lava")
	}
	db := tmdb.NewMemDB()
	ms := store.NewCommitMultiStore(db)
	for _, k := range keys {
		switch k.(type) {
		case *storetypes.MemoryStoreKey:
			ms.MountStoreWithDB(k, storetypes.StoreTypeMemory, nil)
		case *storetypes.TransientStoreKey:
			ms.MountStoreWithDB(k, storetypes.StoreTypeTransient, nil)
		default:
			ms.MountStoreWithDB(k, storetypes.StoreTypeIAVL, db)
		}
	}
	if err := ms.LoadLatestVersion(); err != nil {
		panic(err)
	}
	return sdk.NewContext(ms, header, false, log.NewNopLogger())
}
