package lavaprotocol

import (
	"bytes"
	"context"
	"fmt"

	btcSecp256k1 "github.com/btcsuite/btcd/btcec/v2"
	"github.com/cometbft/cometbft/crypto"
	"github.com/cosmos/cosmos-sdk/crypto/keys/secp256k1"
	sdk "github.com/cosmos/cosmos-sdk/types"
	"github.com/lavanet/lava/v5/utils/sigs"
	pairingtypes "github.com/lavanet/lava/v5/x/pairing/types"
)

// ---- signature model for the symbolic run (stubs; the native replay signs and recovers with real secp256k1) ----
// A signature is the signer's index followed by the signed bytes; recovery yields the signer iff the bytes presented
// are the signed ones, and an unrelated key otherwise (unforgeability / collision-freedom as an assumption).

func verifC25bSign(pkey *btcSecp256k1.PrivateKey, data sigs.Signable) ([]byte, error) {
	return append([]byte{1}, data.DataToSign()...), nil
}

func verifC25bRecover(data sigs.Signable) (secp256k1.PubKey, error) {
	sig := data.GetSignature()
	if len(sig) < 1 {
		return secp256k1.PubKey{}, fmt.Errorf("bad signature")
	}
	if bytes.Equal(sig[1:], data.DataToSign()) {
		return secp256k1.PubKey{Key: []byte{sig[0]}}, nil
	}
	return secp256k1.PubKey{Key: []byte{0xEE}}, nil
}

func verifC25bAddress(pk *secp256k1.PubKey) crypto.Address {
	return crypto.Address(verifC25bRep(pk.Key[0]))
}

func verifC25bRep(b byte) []byte {
	out := make([]byte, 20)
	for i := range out {
		out[i] = b
	}
	return out
}

func verifC25bAccString(aa sdk.AccAddress) string { return string(aa) }

func verifC25bByte(v int64) string { return string([]byte{byte(v)}) }

// injective stand-in for the proto text rendering of the request data (numbers range over -6..200 here)
func verifC25bRelayDataString(m *pairingtypes.RelayPrivateData) string {
	if m == nil {
		return "nil"
	}
	s := "ct:" + m.ConnectionType + "|url:" + m.ApiUrl + "|data:" + string(m.Data) + "|rb:" + verifC25bByte(m.RequestBlock) +
		"|if:" + m.ApiInterface + "|salt:" + string(m.Salt) + "|addon:" + m.Addon + "|sb:" + verifC25bByte(m.SeenBlock) + "|rid:" + m.RequestId
	for _, md := range m.Metadata {
		s += "|md:" + md.Name + "=" + md.Value
	}
	for _, e := range m.Extensions {
		s += "|ext:" + e
	}
	return s
}

// VerifC25VerifyReply: a provider signs a reply for the request it received (SignRelayResponse, which first resolves
// the requested block against the reply's latest block).  A consumer then verifies some reply against some request
// (VerifyRelayReply).  Verification succeeds iff the reply data, reply metadata and every request-data field other
// than the salt are exactly the ones the provider signed, and the expected provider address is the signer's;
// verifying modifies neither the request nor the reply.
func VerifC25VerifyReply() {
	var key *btcSecp256k1.PrivateKey
	providerAddr := string(verifC25bRep(1))
	if !verif_symbolic() {
		var addr sdk.AccAddress
		key, addr = sigs.GenerateFloatingKey()
		providerAddr = addr.String()
	}
	latest := int64(verif_nondet_in("reply.LatestBlock", 0, 200))
	// provider side
	provReq := pairingtypes.RelayRequest{
		RelaySession: &pairingtypes.RelaySession{SpecId: "LAV1", SessionId: 1},
		RelayData: &pairingtypes.RelayPrivateData{ConnectionType: "GET", ApiUrl: verif_nondet_string("signed.ApiUrl", 1), Data: verif_nondet_bytes("signed.Data", 1),
			RequestBlock: int64(verif_nondet_in("signed.RequestBlock", -6, 200)), ApiInterface: "rest", Salt: []byte{9, 9},
			SeenBlock: int64(verif_nondet_in("signed.SeenBlock", 0, 200)), Extensions: []string{verif_nondet_string("signed.Extension", 1)}},
	}
	provReply := &pairingtypes.RelayReply{Data: verif_nondet_bytes("signed.ReplyData", 1), LatestBlock: latest,
		Metadata: []pairingtypes.Metadata{{Name: "h", Value: verif_nondet_string("signed.ReplyMetadataValue", 1)}}}
	signedReply, err := SignRelayResponse(nil, provReq, key, provReply)
	verif_assert("provider-can-sign", err == nil && signedReply != nil && len(signedReply.Sig) > 0)
	signed := *provReq.RelayData // what was signed: the request data with the requested block resolved

	// consumer side: its own request object and the reply as received
	consReq := &pairingtypes.RelayRequest{
		RelaySession: &pairingtypes.RelaySession{SpecId: "LAV1", SessionId: 1},
		RelayData: &pairingtypes.RelayPrivateData{ConnectionType: "GET", ApiUrl: verif_nondet_string("checked.ApiUrl", 1), Data: verif_nondet_bytes("checked.Data", 1),
			RequestBlock: int64(verif_nondet_in("checked.RequestBlock", -6, 200)), ApiInterface: "rest", Salt: []byte{7, 7, 7},
			SeenBlock: int64(verif_nondet_in("checked.SeenBlock", 0, 200)), Extensions: []string{verif_nondet_string("checked.Extension", 1)}},
	}
	consReply := &pairingtypes.RelayReply{Data: verif_nondet_bytes("checked.ReplyData", 1), LatestBlock: latest, Sig: signedReply.Sig,
		Metadata: []pairingtypes.Metadata{{Name: "h", Value: verif_nondet_string("checked.ReplyMetadataValue", 1)}}}
	wrongAddr := verif_nondet_bool("expectOtherProviderAddress")
	expect := providerAddr
	if wrongAddr {
		expect = "lava@1otherprovider"
	}
	rbBefore, saltLen, sigLen := consReq.RelayData.RequestBlock, len(consReq.RelayData.Salt), len(consReply.Sig)

	verr := VerifyRelayReply(context.Background(), consReply, consReq, expect)

	c, s := consReq.RelayData, &signed
	same := c.ApiUrl == s.ApiUrl && c.Data[0] == s.Data[0] && c.RequestBlock == s.RequestBlock && c.SeenBlock == s.SeenBlock &&
		c.Extensions[0] == s.Extensions[0] && consReply.Data[0] == provReply.Data[0] && consReply.Metadata[0].Value == provReply.Metadata[0].Value
	if verr == nil {
		verif_assert("verified-reply-and-request-data-are-the-signed-ones", same)
		verif_assert("verified-only-for-the-signers-address", !wrongAddr)
		verif_reach("verifies")
	} else {
		verif_assert("signed-data-verifies-whatever-the-salt", !same || wrongAddr)
		verif_reach("rejected")
	}
	verif_assert("verification-leaves-request-and-reply-unchanged", consReq.RelayData.RequestBlock == rbBefore && len(consReq.RelayData.Salt) == saltLen && len(consReply.Sig) == sigLen)
}
