package relaypolicy

import (
	"errors"

	"github.com/lavanet/lava/v5/protocol/relaycore"
)

func verifC34Config() PolicyConfig {
	return PolicyConfig{
		MaxRetries:              verif_nondet_int("cfg.MaxRetries"),
		RelayRetryLimit:         verif_nondet_int("cfg.RelayRetryLimit"),
		DisableBatchRetry:       verif_nondet_bool("cfg.DisableBatchRetry"),
		EnableCircuitBreaker:    verif_nondet_bool("cfg.EnableCircuitBreaker"),
		CircuitBreakerThreshold: verif_nondet_int("cfg.CircuitBreakerThreshold"),
		SendRelayAttempts:       verif_nondet_int("cfg.SendRelayAttempts"),
	}
}

// VerifC34Decide: every post-relay decision of the policy engine, for an arbitrary input.
func VerifC34Decide() {
	cfg := verifC34Config()
	p := NewPolicy(cfg)
	var in DecisionInput
	in.Selection = relaycore.Selection(verif_nondet_int("in.Selection"))
	in.AttemptNumber = verif_nondet_int("in.AttemptNumber")
	in.IsBatch = verif_nondet_bool("in.IsBatch")
	in.IsTickerHedge = verif_nondet_bool("in.IsTickerHedge")
	in.NodeErrors = verif_nondet_u64("in.NodeErrors")
	in.Summary.SuccessCount = verif_nondet_int("sum.SuccessCount")
	in.Summary.NodeErrors = verif_nondet_int("sum.NodeErrors")
	in.Summary.SpecialNodeErrors = verif_nondet_int("sum.SpecialNodeErrors")
	in.Summary.ProtocolErrors = verif_nondet_int("sum.ProtocolErrors")
	in.Summary.HasNonRetryableNodeError = verif_nondet_bool("sum.HasNonRetryableNodeError")
	in.Summary.HasUnsupportedMethod = verif_nondet_bool("sum.HasUnsupportedMethod")
	in.Summary.HasPermanentProtocolError = verif_nondet_bool("sum.HasPermanentProtocolError")
	in.Summary.HasEpochMismatch = verif_nondet_bool("sum.HasEpochMismatch")
	if verif_nondet_bool("sum.hashErr") {
		in.Summary.HashErr = errors.New("hash error")
	}
	// counters are non-negative in every caller (they count results)
	verif_assume(in.Summary.NodeErrors >= 0 && in.Summary.SpecialNodeErrors >= 0 && in.Summary.ProtocolErrors >= 0 && in.Summary.SuccessCount >= 0)
	verif_assume(in.Summary.NodeErrors < 1<<40 && in.Summary.SpecialNodeErrors < 1<<40 && in.Summary.ProtocolErrors < 1<<40)
	hasArchive := verif_nondet_bool("in.hasArchiveStatus")
	isArchive := verif_nondet_bool("archive.isArchive")
	isUpgraded := verif_nondet_bool("archive.isUpgraded")
	if hasArchive {
		as := &relaycore.ArchiveStatus{}
		as.SetArchive(isArchive)
		as.SetUpgraded(isUpgraded)
		in.ArchiveStatus = as
	}

	out := p.Decide(in)

	stop := out.Action == Stop
	retry := out.Action == Retry
	verif_assert("action-is-stop-or-retry", stop || retry)
	if in.Selection == relaycore.Stateful || in.Selection == relaycore.CrossValidation {
		verif_assert("stateful-and-crossvalidation-never-retry", stop)
	}
	if in.Summary.HasNonRetryableNodeError || in.Summary.HasPermanentProtocolError {
		verif_assert("non-retryable-error-stops", stop)
	}
	if in.AttemptNumber >= cfg.MaxRetries {
		verif_assert("attempt-limit-stops", stop)
	}
	if in.IsBatch && cfg.DisableBatchRetry {
		verif_assert("batch-retry-disabled-stops", stop)
	}
	totalErrors := in.Summary.NodeErrors + in.Summary.SpecialNodeErrors + in.Summary.ProtocolErrors
	epochMismatchRetry := in.Summary.HasEpochMismatch && in.Summary.SuccessCount == 0
	if !in.IsTickerHedge && !epochMismatchRetry {
		if in.Summary.HashErr != nil {
			verif_assert("hash-error-stops", stop)
		}
		if totalErrors > cfg.RelayRetryLimit {
			verif_assert("error-tolerance-stops", stop)
		}
	}
	if retry {
		verif_assert("retry-implies-stateless-like-selection", in.Selection != relaycore.Stateful && in.Selection != relaycore.CrossValidation)
		verif_assert("retry-implies-no-permanent-error", !in.Summary.HasNonRetryableNodeError && !in.Summary.HasPermanentProtocolError)
		verif_assert("retry-implies-below-attempt-limit", in.AttemptNumber < cfg.MaxRetries)
		verif_assert("retry-implies-batch-allowed", !(in.IsBatch && cfg.DisableBatchRetry))
		verif_reach("retry")
	}
	if stop {
		verif_assert("stop-carries-no-mutation", out.Mutation.ArchiveAction == NoChange && !out.Mutation.CacheHashes)
		verif_reach("stop")
	}
	// archive mutation rules (the epoch-mismatch retry returns before any mutation is considered)
	if retry && epochMismatchRetry {
		verif_assert("epoch-mismatch-retry-carries-no-mutation", out.Mutation.ArchiveAction == NoChange && !out.Mutation.CacheHashes)
	}
	if retry && hasArchive && !epochMismatchRetry {
		if isUpgraded && in.NodeErrors >= 2 {
			verif_assert("upgraded-2-node-errors-removes-archive", out.Mutation.ArchiveAction == RemoveArchive && out.Mutation.CacheHashes)
		} else if !isArchive && in.AttemptNumber == 1 {
			verif_assert("first-retry-adds-archive", out.Mutation.ArchiveAction == AddArchive)
		}
	}
	if retry && !hasArchive && !epochMismatchRetry {
		verif_assert("no-archive-status-no-mutation", out.Mutation.ArchiveAction == NoChange)
	}
	verif_observe("action", int(out.Action))
}

// VerifC34Send: the pre-relay send path over an arbitrary sequence of k send results.
func VerifC34Send() {
	cfg := verifC34Config()
	verif_assume(cfg.SendRelayAttempts >= 0 && cfg.SendRelayAttempts <= 3)
	verif_assume(cfg.CircuitBreakerThreshold >= 1)
	p := NewPolicy(cfg)
	k := verif_param("steps", 5)
	consecutive := 0 // ghost: consecutive send errors so far
	consecutivePairing := 0
	for i := 0; i < k; i++ {
		failed := verif_nondet_bool("send.failed")
		empty := verif_nondet_bool("send.pairingEmpty")
		var err error
		if failed {
			err = errors.New("send failed")
		}
		res := p.OnSendRelayResult(err, empty)
		if !failed {
			consecutive = 0
			consecutivePairing = 0
			verif_assert("success-reports-success", res == SendSuccess)
			continue
		}
		consecutive++
		if cfg.EnableCircuitBreaker && empty {
			consecutivePairing++
		} else if cfg.EnableCircuitBreaker {
			consecutivePairing = 0
		}
		verif_assert("failure-never-reports-success", res != SendSuccess)
		breaker := cfg.EnableCircuitBreaker && empty && consecutivePairing >= cfg.CircuitBreakerThreshold
		if consecutive > cfg.SendRelayAttempts {
			verif_assert("send-stops-after-limit", res == SendStop)
		}
		if res == SendStop {
			verif_assert("send-stop-only-when-limit-or-breaker", consecutive > cfg.SendRelayAttempts || breaker)
		}
		verif_assert("ghost-counter-matches", p.GetConsecutiveBatchErrors() == consecutive)
	}
	verif_reach("end")
}
