package relaycore

import (
	"crypto/sha256"
	"errors"

	"github.com/lavanet/lava/v5/protocol/chainlib"
	"github.com/lavanet/lava/v5/protocol/common"
	"github.com/lavanet/lava/v5/protocol/lavasession"
	pairingtypes "github.com/lavanet/lava/v5/x/pairing/types"
	spectypes "github.com/lavanet/lava/v5/x/spec/types"
)

// verifC33Hash replaces crypto/sha256.Sum256 in the symbolic run only: an injective padding of inputs of at most
// 30 bytes (collision-freedom of SHA-256 is the assumption; the native replay runs the real SHA-256).
func verifC33Hash(data []byte) [32]byte {
	var h [32]byte
	h[0] = byte(len(data)) + 1
	for i := 0; i < len(data) && i < 30; i++ {
		h[i+1] = data[i]
	}
	return h
}

// one provider answer: kind 0 = success with one data byte, 1 = success with two data bytes (first symbolic, second 7),
// 2 = success with empty data, 3 = success with nil data (a nil Reply never reaches the success list:
// ResultsManagerInst.setValidResponse drops it)
func verifC33Result(i int) (common.RelayResult, bool, byte, int) {
	kind := verif_nondet_range("result.kind", 0, 3)
	b := verif_nondet_byte("result.data")
	cached := verif_nondet_bool("result.hashCached")
	res := common.RelayResult{ProviderInfo: common.ProviderInfo{ProviderAddress: string(rune('a' + i))}}
	switch kind {
	case 0:
		res.Reply = &pairingtypes.RelayReply{Data: []byte{b}}
	case 1:
		res.Reply = &pairingtypes.RelayReply{Data: []byte{b, 7}}
	case 2:
		res.Reply = &pairingtypes.RelayReply{Data: []byte{}}
	case 3:
		res.Reply = &pairingtypes.RelayReply{}
	}
	if kind <= 1 && cached {
		res.ResponseHash = sha256.Sum256(res.Reply.Data)
	}
	return res, kind <= 1, b, kind
}

// VerifC33Quorum: for every multiset of n provider answers (identical, differing, of different length, empty,
// nil), every mix of cached / uncached response hashes, every threshold and every map iteration order, the
// cross-validation result is a largest group of byte-identical non-empty answers of at least threshold members, the
// empty answer only when no non-empty group reaches the threshold and the empty ones do, and an error otherwise.
func VerifC33Quorum() {
	n := verif_param("results", 3)
	t := verif_nondet_range("threshold", 1, n)
	results := make([]common.RelayResult, n)
	valid := make([]bool, n)
	data := make([]byte, n)
	kinds := make([]int, n)
	for i := 0; i < n; i++ {
		results[i], valid[i], data[i], kinds[i] = verifC33Result(i)
	}
	rp := &RelayProcessor{selection: CrossValidation, crossValidationParams: &common.CrossValidationParams{AgreementThreshold: t, MaxParticipants: n}}

	res, err := rp.processCrossValidationResult(results, n, 0, t)

	// independent oracle: group sizes
	group := make([]int, n)
	maxValid, empties := 0, 0
	for i := 0; i < n; i++ {
		if !valid[i] {
			empties++
			continue
		}
		for j := 0; j < n; j++ {
			if valid[j] && kinds[j] == kinds[i] && data[j] == data[i] {
				group[i]++
			}
		}
		if group[i] > maxValid {
			maxValid = group[i]
		}
	}
	if err != nil {
		verif_assert("error-only-when-no-group-reaches-threshold", maxValid < t && empties < t)
		verif_reach("error")
		return
	}
	verif_assert("result-returned-with-nil-error", res != nil)
	if res.Reply != nil && len(res.Reply.Data) > 0 {
		// which answer was returned
		cnt := 0
		for i := 0; i < n; i++ {
			if valid[i] && len(results[i].Reply.Data) == len(res.Reply.Data) && results[i].Reply.Data[0] == res.Reply.Data[0] {
				cnt++
			}
		}
		verif_assert("returned-data-has-threshold-identical-answers", cnt >= t)
		verif_assert("returned-data-is-a-largest-group", cnt == maxValid)
		verif_assert("reported-agreement-count-is-the-group-size", res.CrossValidation == cnt)
		verif_reach("data")
	} else {
		verif_assert("empty-returned-only-when-no-data-group-reaches-threshold", maxValid < t && empties >= t)
		verif_reach("empty")
	}
}

type verifC33RM struct {
	ResultsManager
	success []common.RelayResult
}

func (rm *verifC33RM) SetResponse(response *RelayResponse, protocolMessage chainlib.ProtocolMessage) error {
	if response.Err != nil {
		return nil // protocol error: recorded elsewhere, not a node error
	}
	if response.RelayResult.IsNodeError {
		return errors.New("node error")
	}
	rm.success = append(rm.success, response.RelayResult)
	return nil
}

func (rm *verifC33RM) GetResultsData() ([]common.RelayResult, []common.RelayResult, []RelayError) {
	return rm.success, nil, nil
}

type verifC33PM struct{ chainlib.ProtocolMessage }

func (verifC33PM) GetApi() *spectypes.Api { return &spectypes.Api{Name: "m"} }

type verifC33SM struct{ RelayStateMachine }

func (verifC33SM) GetProtocolMessage() chainlib.ProtocolMessage { return verifC33PM{} }

type verifC33Metrics struct{}

func (verifC33Metrics) SetRelayNodeErrorMetric(chainId string, apiInterface string, providerAddress string, method string) {
}

type verifC33Getter struct{}

func (verifC33Getter) GetChainIdAndApiInterface() (string, string) { return "LAV1", "rest" }

// VerifC33Arrival: answers (successes with data, node errors, protocol errors) arrive one by one in an arbitrary
// order; the running quorum counter equals the size of the largest group of identical successful answers seen so
// far, the early exit is taken only when that reaches the threshold (or everybody answered), and the final result
// over what was collected obeys the quorum rule.
func VerifC33Arrival() {
	n := verif_param("responses", 3)
	t := verif_nondet_range("threshold", 1, n)
	up := lavasession.NewUsedProviders(nil)
	sessions := lavasession.ConsumerSessionsMap{}
	for i := 0; i <= n; i++ { // one more provider than answers, so "all answered" never triggers
		sessions[string(rune('a'+i))] = &lavasession.SessionInfo{}
	}
	up.AddUsed(sessions, nil)
	rm := &verifC33RM{}
	rp := &RelayProcessor{
		selection: CrossValidation, crossValidationParams: &common.CrossValidationParams{AgreementThreshold: t, MaxParticipants: n + 1},
		quorumMap: map[[32]byte]int{}, ResultsManager: rm, RelayStateMachine: verifC33SM{}, usedProviders: up,
		chainIdAndApiInterfaceGetter: verifC33Getter{}, metricsInf: verifC33Metrics{},
	}
	good := make([]bool, n)
	data := make([]byte, n)
	for i := 0; i < n; i++ {
		kind := verif_nondet_range("response.kind", 0, 2) // 0 success, 1 node error, 2 protocol error
		b := verif_nondet_byte("response.data")
		resp := &RelayResponse{RelayResult: common.RelayResult{Reply: &pairingtypes.RelayReply{Data: []byte{b}}}}
		if kind == 1 {
			resp.RelayResult.IsNodeError = true
		}
		if kind == 2 {
			resp.Err = errors.New("protocol error")
		}
		good[i], data[i] = kind == 0, b
		rp.handleResponse(resp)

		best := 0
		for x := 0; x <= i; x++ {
			c := 0
			for y := 0; y <= i; y++ {
				if good[x] && good[y] && data[x] == data[y] {
					c++
				}
			}
			if c > best {
				best = c
			}
		}
		verif_assert("quorum-counter-is-largest-identical-success-group", rp.currentQuorumEqualResults == best)
		done := rp.checkEndProcessing(i + 1)
		verif_assert("early-exit-iff-threshold-identical-successes-arrived", done == (best >= t))
		if done {
			res, err := rp.processCrossValidationResult(rm.success, len(rm.success), 0, t)
			verif_assert("early-exit-yields-a-result", err == nil && res != nil && res.Reply != nil)
			c := 0
			for y := 0; y <= i; y++ {
				if good[y] && data[y] == res.Reply.Data[0] {
					c++
				}
			}
			verif_assert("early-exit-result-has-threshold-identical-successes", c >= t)
			verif_reach("early-exit")
			return
		}
	}
	verif_reach("no-quorum")
}
