package chainlib

import spectypes "github.com/lavanet/lava/v5/x/spec/types"

func verifC31Block(name string) int64 {
	b := verif_nondet_i64(name)
	// a member's requested block: a block number, or a special tag (-1 not applicable .. -6 finalized)
	verif_assume(b >= -6 && b < 1<<62)
	return b
}

// VerifC31FoldOrder: folding two further batch members into a running (latest, earliest) summary gives the same
// summary in both orders, for the real CompareRequestedBlockInBatch.
func VerifC31FoldOrder() {
	l0, e0 := verifC31Block("running.latest"), verifC31Block("running.earliest")
	b, c := verifC31Block("member.b"), verifC31Block("member.c")
	l1, e1 := CompareRequestedBlockInBatch(l0, e0, b)
	l1, e1 = CompareRequestedBlockInBatch(l1, e1, c)
	l2, e2 := CompareRequestedBlockInBatch(l0, e0, c)
	l2, e2 = CompareRequestedBlockInBatch(l2, e2, b)
	// known findings (known_findings.json): the tag precedence of the latest side is cyclic (earliest tag < number <
	// safe/finalized/pending tag < earliest tag), and block 0 is treated as neither a number nor a tag
	hasEarliestTag := l0 == spectypes.EARLIEST_BLOCK || b == spectypes.EARLIEST_BLOCK || c == spectypes.EARLIEST_BLOCK
	hasLowTag := l0 < spectypes.EARLIEST_BLOCK || b < spectypes.EARLIEST_BLOCK || c < spectypes.EARLIEST_BLOCK
	hasNumber := l0 > 0 || b > 0 || c > 0
	verif_known("C31-latest-tag-cycle", hasEarliestTag && hasLowTag && hasNumber)
	verif_known("C31-block-zero", l0 == 0 || e0 == 0 || b == 0 || c == 0)
	verif_assert("latest-summary-order-independent", l1 == l2)
	verif_assert("earliest-summary-order-independent", e1 == e2)
	verif_reach("end")
}

// VerifC31Covers: the summary of numeric blocks covers the new numeric member; special tags follow the documented
// precedence (earliest tag wins for the earliest side; a non-earliest tag wins over numbers on the latest side).
func VerifC31Covers() {
	l0, e0 := verifC31Block("running.latest"), verifC31Block("running.earliest")
	b := verifC31Block("member")
	l, e := CompareRequestedBlockInBatch(l0, e0, b)
	if l0 > 0 && e0 > 0 && b > 0 {
		verif_assume(e0 <= l0)
		verif_assert("numeric-range-covers-member", e <= b && b <= l && e <= e0 && l0 <= l)
		verif_assert("numeric-range-is-tight", (e == b || e == e0) && (l == b || l == l0))
		verif_reach("numeric")
	}
	if b == spectypes.EARLIEST_BLOCK || e0 == spectypes.EARLIEST_BLOCK {
		verif_assert("earliest-tag-dominates-earliest-side", e == spectypes.EARLIEST_BLOCK)
		verif_reach("earliest-tag")
	}
	verif_assert("summary-is-one-of-the-inputs", (l == l0 || l == b) && (e == e0 || e == b))
	// what the chain message reports for the summary (earliest 0 means "not set")
	bc := baseChainMessageContainer{latestRequestedBlock: l, earliestRequestedBlock: e}
	rl, re := bc.RequestedBlock()
	verif_assert("message-reports-latest-summary", rl == l)
	if e != 0 {
		verif_assert("message-reports-earliest-summary", re == e)
	} else {
		verif_assert("unset-earliest-falls-back-to-latest", re == l)
	}
}
