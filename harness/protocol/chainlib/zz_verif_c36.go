package chainlib

import (
	"bytes"

	"github.com/golang/protobuf/proto"
	pairingtypes "github.com/lavanet/lava/v5/x/pairing/types"
)

// Symbolic-run stand-ins (the native replay runs the real functions):
// proto.Marshal of the CacheHash message -> its generated gogoproto Marshal (real generated code, no reflection);
// sigs.HashMsg (sha256) -> identity, i.e. the hash is treated as injective.
func verifC36Marshal(m proto.Message) ([]byte, error) { return m.(*pairingtypes.CacheHash).Marshal() }
func verifC36Hash(b []byte) []byte                   { return b }

// block fields take one of three concrete values (0, a one-byte and a two-byte varint): the generated Marshal sizes
// its buffer from the value, which the encoder needs concrete
func verifC36Block(name string) int64 { return []int64{0, 1, 200}[verif_nondet_range(name, 0, 2)] }

func verifC36Request(tag string) *pairingtypes.RelayPrivateData {
	return &pairingtypes.RelayPrivateData{
		ConnectionType: verif_nondet_string(tag+".ConnectionType", 1),
		ApiUrl:         verif_nondet_string(tag+".ApiUrl", 1),
		Data:           verif_nondet_bytes(tag+".Data", 1),
		RequestBlock:   verifC36Block(tag + ".RequestBlock"),
		ApiInterface:   "rest", // identity formatter: the JSON-RPC id stripping (encoding/json) is outside the encoder
		Salt:           verif_nondet_bytes(tag+".Salt", 1),
		Metadata:       []pairingtypes.Metadata{{Name: verif_nondet_string(tag+".Metadata[0].Name", 1), Value: verif_nondet_string(tag+".Metadata[0].Value", 1)}},
		Addon:          verif_nondet_string(tag+".Addon", 1),
		Extensions:     []string{verif_nondet_string(tag+".Extensions[0]", 1)},
		SeenBlock:      verifC36Block(tag + ".SeenBlock"),
		RequestId:      verif_nondet_string(tag+".RequestId", 1),
	}
}

// VerifC36KeyKeepsRequest: computing the cache key leaves the request exactly as it was.
func VerifC36KeyKeepsRequest() {
	r := verifC36Request("req")
	data0, salt0, rb, sb, rid := r.Data[0], r.Salt[0], r.RequestBlock, r.SeenBlock, r.RequestId
	_, _, err := HashCacheRequest(r, "LAV1")
	verif_assert("key-computed", err == nil)
	verif_assert("data-kept", len(r.Data) == 1 && r.Data[0] == data0)
	verif_assert("salt-kept", len(r.Salt) == 1 && r.Salt[0] == salt0)
	verif_assert("blocks-kept", r.RequestBlock == rb && r.SeenBlock == sb)
	verif_assert("request-id-kept", r.RequestId == rid)
	verif_reach("end")
}

// VerifC36KeyBinds: equal keys imply the same chain and the same request apart from salt, seen block, request id
// (and the requested block, which the cache adds to the key on its side); those fields never change the key.
func VerifC36KeyBinds() {
	a, b := verifC36Request("a"), verifC36Request("b")
	chainA := verif_nondet_string("a.chain", 1)
	chainB := verif_nondet_string("b.chain", 1)
	ka, _, ea := HashCacheRequest(a, chainA)
	kb, _, eb := HashCacheRequest(b, chainB)
	verif_assert("keys-computed", ea == nil && eb == nil)
	same := chainA == chainB && a.ConnectionType == b.ConnectionType && a.ApiUrl == b.ApiUrl && bytes.Equal(a.Data, b.Data) &&
		a.Addon == b.Addon && a.Extensions[0] == b.Extensions[0] && a.Metadata[0].Name == b.Metadata[0].Name && a.Metadata[0].Value == b.Metadata[0].Value
	if bytes.Equal(ka, kb) {
		verif_assert("same-key-same-chain-and-request", same)
		verif_reach("equal")
	} else {
		verif_assert("salt-seen-block-and-ids-do-not-change-the-key", !same)
		verif_reach("different")
	}
}
