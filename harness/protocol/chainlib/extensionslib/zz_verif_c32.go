package extensionslib

import spectypes "github.com/lavanet/lava/v5/x/spec/types"

type verifC32Msg struct {
	latest, earliest int64
	ext              *spectypes.Extension
}

func (m *verifC32Msg) SetExtension(e *spectypes.Extension)  { m.ext = e }
func (m *verifC32Msg) RequestedBlock() (int64, int64)       { return m.latest, m.earliest }

// VerifC32Rule: an archive extension with a positive block rule, a message without an explicit extension choice,
// arbitrary requested blocks and latest block: the message is marked archive exactly as the rule says.
func VerifC32Rule() {
	rule := verif_nondet_u64("rule.Block")
	latest := verif_nondet_u64("latestBlock")
	e := verif_nondet_i64("earliestRequestedBlock")
	l := verif_nondet_i64("latestRequestedBlock")
	verif_assume(rule > 0)
	verif_assume(e >= -6 && l >= -6) // block numbers or the special tags (-1 n/a .. -6 finalized)
	verif_assume(latest < 1<<62)
	ext := &spectypes.Extension{Name: ArchiveExtension, CuMultiplier: 1, Rule: &spectypes.Rule{Block: rule}}
	ep := ExtensionParser{configuredExtensions: map[ExtensionKey]*spectypes.Extension{
		{Extension: ArchiveExtension, ConnectionType: "POST", Addon: ""}: ext,
	}}
	msg := &verifC32Msg{latest: l, earliest: e}

	ep.ExtensionParsing("", msg, latest)

	marked := msg.ext != nil
	if e == spectypes.EARLIEST_BLOCK {
		verif_assert("earliest-block-needs-archive", marked)
		verif_reach("earliest")
	} else if e < 0 {
		verif_assert("latest-or-no-specific-block-never-archive", !marked)
		verif_reach("tags")
	} else if latest == 0 {
		verif_assert("unknown-latest-block-needs-archive", marked)
		verif_reach("unknown-latest")
	} else {
		// more than rule blocks behind the latest block, in mathematical integers (holds for latest < rule too)
		old := uint64(e) < latest && latest-uint64(e) > rule
		verif_assert("archive-iff-older-than-rule-distance", marked == old)
		if marked {
			verif_reach("old")
		} else {
			verif_reach("recent")
		}
	}
	if marked {
		verif_assert("marked-with-the-archive-extension", msg.ext == ext)
	}
}
