package chainlib

import (
	"fmt"
	"strings"

	"github.com/lavanet/lava/v5/protocol/chainlib/chainproxy/rpcInterfaceMessages"
	"github.com/lavanet/lava/v5/protocol/chainlib/extensionslib"
	"github.com/lavanet/lava/v5/protocol/parser"
	spectypes "github.com/lavanet/lava/v5/x/spec/types"
)

// ---- the whole JsonRPCChainParser.ParseMsg on a small spec ----
// Spec: one jsonrpc collection with eth_call (20 CU), eth_getBalance (15 CU) - both take the block as their second
// parameter - and net_version (10 CU, no block), and an archive extension with a symbolic positive rule block.
// Symbolic run: the JSON decoder and the parameter parser are stubbed (ParseJsonRPCMsgWithBatchFlag returns the
// harness's messages, parser.ParseBlockFromParams returns the member's symbolic block), NewBatchMessage returns an
// empty batch.  Native replay: the request is real JSON text and everything runs for real.

var (
	verifPMMsgs   []rpcInterfaceMessages.JsonrpcMessage
	verifPMBatch  bool
	verifPMBlocks []int64
)

func verifPMParseJSON(data []byte) ([]rpcInterfaceMessages.JsonrpcMessage, bool, error) {
	return verifPMMsgs, verifPMBatch, nil
}

func verifPMParseBlock(rpcInput parser.RPCInput, blockParser spectypes.BlockParser, genericParsers []spectypes.GenericParser) *parser.ParsedInput {
	msg := rpcInput.(rpcInterfaceMessages.JsonrpcMessage)
	pi := parser.NewParsedInput()
	pi.SetBlock(verifPMBlocks[int(msg.ID[0]-'0')])
	pi.UsedDefaultValue = false
	return pi
}

func verifPMNewBatch(msgs []rpcInterfaceMessages.JsonrpcMessage) (rpcInterfaceMessages.JsonrpcBatchMessage, error) {
	return rpcInterfaceMessages.JsonrpcBatchMessage{}, nil
}

func verifPMParser(rule uint64) *JsonRPCChainParser {
	blockArg := spectypes.BlockParser{ParserArg: []string{"1"}, ParserFunc: spectypes.PARSER_FUNC_PARSE_BY_ARG}
	spec := spectypes.Spec{Index: "ETH1", Name: "eth", Enabled: true, ApiCollections: []*spectypes.ApiCollection{{
		Enabled:        true,
		CollectionData: spectypes.CollectionData{ApiInterface: spectypes.APIInterfaceJsonRPC, Type: "POST"},
		Apis: []*spectypes.Api{
			{Name: "eth_call", Enabled: true, ComputeUnits: 20, BlockParsing: blockArg, Category: spectypes.SpecCategory{Deterministic: true}},
			{Name: "eth_getBalance", Enabled: true, ComputeUnits: 15, BlockParsing: blockArg, Category: spectypes.SpecCategory{Deterministic: true}},
			{Name: "net_version", Enabled: true, ComputeUnits: 10, BlockParsing: spectypes.BlockParser{ParserFunc: spectypes.PARSER_FUNC_EMPTY}},
		},
		Extensions: []*spectypes.Extension{{Name: extensionslib.ArchiveExtension, CuMultiplier: 1, Rule: &spectypes.Rule{Block: rule}}},
	}}}
	p, _ := NewJrpcChainParser()
	p.SetSpec(spec)
	p.SetPolicyFromAddonAndExtensionMap(map[string]struct{}{extensionslib.ArchiveExtension: {}})
	return p
}

var verifPMMethods = []string{"eth_call", "eth_getBalance", "net_version"}
var verifPMCU = []uint64{20, 15, 10}

// one batch member: method and requested block (a number, or a tag; net_version has no block)
func verifPMMember(latestKnown bool) (method int, block int64) {
	method = verif_nondet_range("member.method", 0, 2)
	if method == 2 {
		return method, spectypes.NOT_APPLICABLE
	}
	block = verif_nondet_i64("member.block")
	verif_assume(block >= -6 && block != spectypes.NOT_APPLICABLE && block < 1<<62)
	return method, block
}

func verifPMBlockParam(b int64) string {
	switch b {
	case spectypes.LATEST_BLOCK:
		return `"latest"`
	case spectypes.EARLIEST_BLOCK:
		return `"earliest"`
	case spectypes.PENDING_BLOCK:
		return `"pending"`
	case spectypes.SAFE_BLOCK:
		return `"safe"`
	case spectypes.FINALIZED_BLOCK:
		return `"finalized"`
	}
	return fmt.Sprintf(`"0x%x"`, b)
}

// request text (native) and decoded messages (symbolic) for the members in the given order
func verifPMRequest(methods []int, blocks []int64, order []int, batch bool) []byte {
	verifPMMsgs, verifPMBlocks, verifPMBatch = nil, nil, batch
	var parts []string
	for pos, i := range order {
		verifPMMsgs = append(verifPMMsgs, rpcInterfaceMessages.JsonrpcMessage{Version: "2.0", ID: []byte{byte('0' + pos)}, Method: verifPMMethods[methods[i]]})
		verifPMBlocks = append(verifPMBlocks, blocks[i])
		params := `[]`
		if methods[i] != 2 {
			params = `[{"to":"0x01"},` + verifPMBlockParam(blocks[i]) + `]`
		}
		parts = append(parts, fmt.Sprintf(`{"jsonrpc":"2.0","id":%d,"method":"%s","params":%s}`, pos, verifPMMethods[methods[i]], params))
	}
	if verif_symbolic() {
		return []byte("x")
	}
	if batch {
		return []byte("[" + strings.Join(parts, ",") + "]")
	}
	return []byte(parts[0])
}

func verifPMHasArchive(m ChainMessage) bool {
	for _, e := range m.GetExtensions() {
		if e.Name == extensionslib.ArchiveExtension {
			return true
		}
	}
	return false
}

// the statement's rule for one request, in mathematical integers
func verifPMNeedsArchive(method int, block int64, latest, rule uint64) bool {
	if block == spectypes.EARLIEST_BLOCK {
		return true
	}
	if block < 0 {
		return false
	}
	if latest == 0 {
		return true
	}
	b := uint64(block)
	if b < latest && latest-b > rule {
		return true
	}
	return method == 0 && b < latest && latest-b > 126
}

// VerifC32ParseMsg: a single (non-batch) request through the real ParseMsg: the message is marked archive exactly
// when the statement says so, for every method, requested block, rule distance and latest block - including chains
// younger than the rule distance or than 126 blocks.
func VerifC32ParseMsg() {
	rule := verif_nondet_u64("rule.Block")
	latest := verif_nondet_u64("latestBlock")
	verif_assume(rule > 0 && rule < 1<<62 && latest < 1<<62)
	method, block := verifPMMember(true)
	p := verifPMParser(rule)
	data := verifPMRequest([]int{method}, []int64{block}, []int{0}, false)

	msg, err := p.ParseMsg("", data, "POST", nil, extensionslib.ExtensionInfo{LatestBlock: latest})

	verif_assert("supported-request-parses", err == nil && msg != nil)
	l, _ := msg.RequestedBlock()
	verif_assert("requested-block-is-the-parsed-one", l == block)
	verif_assert("compute-units-of-the-method", msg.GetApi().ComputeUnits == verifPMCU[method])
	marked := verifPMHasArchive(msg)
	want := verifPMNeedsArchive(method, block, latest, rule)
	if block < 0 && block != spectypes.EARLIEST_BLOCK {
		verif_assert("latest-or-no-specific-block-never-archive", !marked)
		verif_reach("tags")
	} else {
		verif_assert("archive-iff-the-rule-says-so", marked == want)
		if marked {
			verif_reach("archive")
		} else {
			verif_reach("plain")
		}
	}
}

// VerifC31ParseBatch: a batch of k members through the real ParseMsg, in the given order and in the reverse /
// rotated order: compute units add up, the summarised blocks do not depend on the order, numeric members lie within
// the summarised range, and a member that needs archive on its own makes the batch need it.
func VerifC31ParseBatch() {
	k := verif_param("members", 2)
	rule := verif_nondet_u64("rule.Block")
	latest := verif_nondet_u64("latestBlock")
	verif_assume(rule > 0 && rule < 1<<62 && latest < 1<<62)
	methods := make([]int, k)
	blocks := make([]int64, k)
	var cu uint64
	anyArchive := false
	for i := 0; i < k; i++ {
		methods[i], blocks[i] = verifPMMember(true)
		cu += verifPMCU[methods[i]]
		if verifPMNeedsArchive(methods[i], blocks[i], latest, rule) {
			anyArchive = true
		}
	}
	order1 := make([]int, k)
	order2 := make([]int, k)
	for i := 0; i < k; i++ {
		order1[i] = i
		order2[i] = (i + 1) % k // rotation: for k = 2 the swap, for k = 3 a cyclic shift
	}
	p := verifPMParser(rule)
	m1, err1 := p.ParseMsg("", verifPMRequest(methods, blocks, order1, true), "POST", nil, extensionslib.ExtensionInfo{LatestBlock: latest})
	m2, err2 := p.ParseMsg("", verifPMRequest(methods, blocks, order2, true), "POST", nil, extensionslib.ExtensionInfo{LatestBlock: latest})
	verif_assert("supported-batch-parses", err1 == nil && err2 == nil && m1 != nil && m2 != nil)
	verif_assert("batch-compute-units-are-the-sum", m1.GetApi().ComputeUnits == cu && m2.GetApi().ComputeUnits == cu)
	l1, e1 := m1.RequestedBlock()
	l2, e2 := m2.RequestedBlock()
	// known findings of the fold itself (C31-latest-tag-cycle, C31-block-zero) apply here as well
	hasEarliestTag, hasLowTag, hasNumber, hasZero := false, false, false, false
	for i := 0; i < k; i++ {
		hasEarliestTag = hasEarliestTag || blocks[i] == spectypes.EARLIEST_BLOCK
		hasLowTag = hasLowTag || blocks[i] < spectypes.EARLIEST_BLOCK
		hasNumber = hasNumber || blocks[i] > 0
		hasZero = hasZero || blocks[i] == 0
	}
	verif_known("C31-latest-tag-cycle-batch", hasEarliestTag && hasLowTag && hasNumber)
	verif_known("C31-block-zero-batch", hasZero)
	hasNA := false
	for i := 0; i < k; i++ {
		hasNA = hasNA || blocks[i] == spectypes.NOT_APPLICABLE
	}
	verif_known("C31-not-applicable-hides-archive", hasNA && anyArchive)
	verif_assert("batch-latest-summary-order-independent", l1 == l2)
	verif_assert("batch-earliest-summary-order-independent", e1 == e2)
	allNumeric := true
	for i := 0; i < k; i++ {
		if blocks[i] <= 0 {
			allNumeric = false
		}
	}
	if allNumeric {
		for i := 0; i < k; i++ {
			verif_assert("numeric-member-within-summarised-range", e1 <= blocks[i] && blocks[i] <= l1)
		}
		verif_reach("numeric")
	}
	if anyArchive {
		verif_assert("member-needing-archive-makes-the-batch-need-it", verifPMHasArchive(m1) && verifPMHasArchive(m2))
		verif_reach("archive")
	}
	verif_reach("end")
}
