package chaintracker

import (
	"context"
	"errors"
)

const verifC30Base = 100 // tracker's latest block before the poll (block numbers are concrete, hashes symbolic)

// model node: a canonical chain of one-byte hashes for heights verifC30Base-4 .. verifC30Base+4
type verifC30Node struct {
	latest int64
	hashes map[int64]string
	fail   int64 // height whose hash fetch fails (0 = none)
}

func (n *verifC30Node) FetchLatestBlockNum(ctx context.Context) (int64, error) { return n.latest, nil }
func (n *verifC30Node) FetchBlockHashByNum(ctx context.Context, blockNum int64) (string, error) {
	if blockNum == n.fail {
		return "", errors.New("node error")
	}
	h, ok := n.hashes[blockNum]
	if !ok || blockNum > n.latest {
		return "", errors.New("no such block")
	}
	return h, nil
}

// VerifC30Poll: a tracker holding the last 3 blocks up to height 100 polls a node whose chain advanced by 0..4
// blocks and reorganised the top 0..3 stored blocks; one hash fetch may fail. After a successful update the tracker
// mirrors the node's chain exactly.
func VerifC30Poll() {
	n := verif_param("blocks_to_save", 3)
	maxAdv := verif_param("max_advance", 4)
	adv := verif_nondet_range("node.advancedBy", 0, maxAdv)
	fork := verif_nondet_range("node.reorgDepth", 0, n) // how many of the newest stored blocks now have another hash on the node
	node := &verifC30Node{latest: verifC30Base + int64(adv), hashes: map[int64]string{}}
	for h := int64(verifC30Base - n - 1); h <= int64(verifC30Base+maxAdv); h++ {
		node.hashes[h] = verif_nondet_string("node.hash", 1)
	}
	if verif_nondet_bool("node.fetchFails") {
		node.fail = verifC30Base + int64(verif_nondet_range("node.failAt", -n, maxAdv))
	}
	ct := &ChainTracker{blocksToSave: uint64(n), latestBlockNum: verifC30Base, iChainFetcherWrapper: node, blockCheckpointDistance: 1000}
	for i := 0; i < n; i++ {
		h := int64(verifC30Base - n + 1 + i)
		hash := node.hashes[h]
		if i >= n-fork {
			// replaced by the reorganisation: the stored hash differs from the node's current one
			hash = verif_nondet_string("stored.staleHash", 1)
			verif_assume(hash != node.hashes[h])
		}
		ct.blocksQueue = append(ct.blocksQueue, BlockStore{Block: h, Hash: hash})
	}
	newLatest := node.latest

	latestHash, err := ct.fetchAllPreviousBlocks(context.Background(), newLatest)

	if err != nil {
		verif_reach("error")
		return
	}
	verif_assert("latest-block-equals-node", ct.GetAtomicLatestBlockNum() == newLatest)
	verif_assert("holds-exactly-blocks-to-save", len(ct.blocksQueue) == n)
	ok := len(ct.blocksQueue) == n
	for i := 0; ok && i < n; i++ {
		h := newLatest - int64(n) + 1 + int64(i)
		verif_assert("consecutive-heights-ending-at-latest", ct.blocksQueue[i].Block == h)
		verif_assert("stored-hash-is-node-hash", ct.blocksQueue[i].Hash == node.hashes[h])
	}
	verif_assert("returns-latest-hash", latestHash == node.hashes[newLatest])
	verif_reach("updated")
}
