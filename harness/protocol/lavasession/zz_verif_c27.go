package lavasession

import "context"

// VerifC27Prepare: one relay arrives on a locked provider session from an arbitrary consistent state
// (used CU of the consumer's project within the limit, the session's CU sum part of it), with an arbitrary
// consumer-chosen total CU. Then the relay fails and is rolled back.
func VerifC27Prepare() {
	max := verif_nondet_u64("epoch.MaxComputeUnits")
	used := verif_nondet_u64("epoch.UsedComputeUnits")
	ve := verif_nondet_u64("virtualEpoch")
	cuSum := verif_nondet_u64("session.CuSum")
	cuFromSpec := verif_nondet_u64("cuFromSpec")
	total := verif_nondet_u64("relayRequestTotalCU") // consumer-signed CuSum of the incoming relay: arbitrary
	verif_assume(max < 1<<48 && ve < 1<<10)          // max*(ve+1) does not wrap
	limit := max * (ve + 1)
	verif_assume(used <= limit && cuSum <= used) // state invariant: used CU within limit, session sum part of it
	verif_assume(cuFromSpec < 1<<32)
	// consumer and provider agree on the CU sum or the consumer pays more (the mismatch branch uses float64
	// thresholds, which the encoder does not model)
	verif_assume(total >= cuSum+cuFromSpec)
	epochData := &ProviderSessionsEpochData{MaxComputeUnits: max, UsedComputeUnits: used}
	parent := NewProviderSessionsWithConsumer("project", epochData, 1)
	sps := &SingleProviderSession{userSessionsParent: parent, CuSum: cuSum, SessionID: 1, PairingEpoch: 10}
	parent.Sessions[1] = sps
	sps.lock.Lock()

	err := sps.PrepareSessionForUsage(context.Background(), cuFromSpec, total, 0, ve)

	usedAfter := epochData.UsedComputeUnits
	if err != nil {
		verif_assert("rejected-relay-leaves-used-cu", usedAfter == used)
		verif_assert("rejected-relay-leaves-session-cu", sps.CuSum == cuSum && sps.LatestRelayCu == 0)
		verif_reach("rejected")
		return
	}
	verif_assert("accepted-cu-within-max-times-virtual-epochs", usedAfter <= limit)
	verif_assert("used-cu-grows-by-session-cu", usedAfter >= used && usedAfter-used == sps.CuSum-cuSum)
	verif_assert("session-cu-sum-is-consumer-total", sps.CuSum == total && sps.LatestRelayCu == total-cuSum)
	verif_reach("accepted")

	// the relay fails while the epoch is still valid: full rollback
	ferr := sps.onSessionFailure()
	verif_assert("failure-handled", ferr == nil)
	verif_assert("failed-relay-cu-rolled-back", epochData.UsedComputeUnits == used && sps.CuSum == cuSum && sps.LatestRelayCu == 0)
	verif_reach("rolled-back")
}

// VerifC27RegisterRace: two first relays of a not-yet-registered project in one epoch.  Relay B saw
// ConsumerNotRegisteredYet under the read lock; before B takes the write lock in registerNewConsumer, relay A may
// (raced) or may not have registered the project, obtained its session and been accepted.  Whatever happened, B's
// registration must end with both sessions charging the same per-project counter: accepted CU never exceeds the
// project's max CU and the counter equals the sum of the project's session CU sums.
func VerifC27RegisterRace() {
	max := verif_nondet_u64("MaxComputeUnits")
	cuA := verif_nondet_u64("relayA.cu")
	cuB := verif_nondet_u64("relayB.cu")
	raced := verif_nondet_bool("relayA.registeredFirst")
	sameConsumer := verif_nondet_bool("sameConsumerAddress")
	verif_assume(max < 1<<48 && cuA < 1<<48 && cuB < 1<<48)
	psm := NewProviderSessionManager(&RPCProviderEndpoint{}, 5)
	ctx := context.Background()
	consumerB := "consumerB"
	if sameConsumer {
		consumerB = "consumerA"
	}
	var accepted uint64
	var parentA *ProviderSessionsWithConsumerProject
	var sessA *SingleProviderSession
	if raced {
		var err error
		parentA, err = psm.registerNewConsumer("consumerA", "project", 10, max, 1)
		verif_assert("first-registration-succeeds", err == nil && parentA != nil)
		sessA, err = psm.GetSession(ctx, "consumerA", 10, 1, 1)
		verif_assert("first-session-created", err == nil && sessA != nil)
		if sessA.PrepareSessionForUsage(ctx, cuA, cuA, 0, 0) == nil {
			accepted += cuA
		}
		verif_assert("first-relay-within-max", accepted <= max)
	}
	// relay B: passed IsActiveProject earlier (not registered then), now registers
	parentB, err := psm.registerNewConsumer(consumerB, "project", 10, max, 1)
	verif_assert("second-registration-succeeds", err == nil && parentB != nil)
	if raced {
		verif_assert("existing-project-entry-is-kept", parentB == parentA)
	}
	sessB, err := psm.GetSession(ctx, consumerB, 10, 2, 1)
	verif_assert("second-session-created", err == nil && sessB != nil && sessB != sessA)
	if sessB.PrepareSessionForUsage(ctx, cuB, cuB, 0, 0) == nil {
		accepted += cuB
	}
	verif_assert("accepted-cu-of-project-within-max", accepted <= max)
	sum := sessB.CuSum
	if raced {
		sum += sessA.CuSum
	}
	verif_assert("project-used-cu-is-sum-of-its-sessions", sessB.userSessionsParent.atomicReadUsedComputeUnits() == sum && sum == accepted)
	cur, aerr := psm.IsActiveProject(10, "project")
	verif_assert("sessions-charge-the-registered-project-entry", aerr == nil && cur == sessB.userSessionsParent && (!raced || cur == sessA.userSessionsParent))
	verif_reach("end")
}

// VerifC27RelayNumber: replay protection.  A session that completed relay number n hands itself out only for a
// relay number above n; a completed relay stores its number; the rejected request leaves the session unlocked and
// unchanged.
func VerifC27RelayNumber() {
	stored := verif_nondet_u64("session.RelayNum")
	req := verif_nondet_u64("request.relayNumber")
	next := verif_nondet_u64("nextRequest.relayNumber")
	verif_assume(stored < 1<<62)
	psm := NewProviderSessionManager(&RPCProviderEndpoint{}, 5)
	ctx := context.Background()
	parent, err := psm.registerNewConsumer("consumerA", "project", 10, 1000, 1)
	verif_assert("registered", err == nil)
	sps := &SingleProviderSession{userSessionsParent: parent, SessionID: 1, PairingEpoch: 10, RelayNum: stored}
	parent.Sessions[1] = sps

	got, err := psm.GetSession(ctx, "consumerA", 10, 1, req)
	if err != nil {
		verif_assert("only-stale-relay-numbers-are-rejected", req <= stored)
		verif_assert("rejected-request-leaves-session-free-and-unchanged", sps.lock.TryLock() && sps.RelayNum == stored && sps.CuSum == 0)
		verif_reach("rejected")
		return
	}
	verif_assert("accepted-relay-number-is-above-every-completed-one", got == sps && req > stored)
	verif_assert("session-is-held-by-the-relay", !sps.lock.TryLock())
	verif_assert("relay-done", psm.OnSessionDone(sps, req) == nil)
	verif_assert("completed-relay-number-recorded", sps.RelayNum == req)
	// the same or an older number can not be used again
	_, err2 := psm.GetSession(ctx, "consumerA", 10, 1, next)
	verif_assert("replayed-or-older-relay-number-rejected", (err2 == nil) == (next > req))
	verif_reach("accepted")
}

// ---- other goroutines as interference at synchronisation points (symbolic run only) ----
// verifC27Interfere runs before every atomic operation / lock acquisition of the executed thread.  Other relays of
// the same project may have been accepted or rolled back meanwhile: the used-CU counter moves to any value that
// respects the limit (every other thread checks it too), and the ghost sum of all session CU sums moves with it.

var (
	verifC27Epoch  *ProviderSessionsEpochData
	verifC27Limit  uint64
	verifC27Ghost  uint64 // sum of the CU sums of all sessions of the project (ghost)
	verifC27Budget int
)

func verifC27Interfere() {
	if verifC27Epoch == nil || verifC27Budget == 0 {
		return
	}
	if !verif_nondet_bool("otherThreads.actNow") {
		return
	}
	verifC27Budget--
	nv := verif_nondet_u64("otherThreads.usedCuAfter")
	verif_assume(nv <= verifC27Limit)
	verifC27Ghost = verifC27Ghost - verifC27Epoch.UsedComputeUnits + nv
	verifC27Epoch.UsedComputeUnits = nv
}

// VerifC27ConcurrentPrepare: a relay is accepted on one session while other sessions of the same project add and
// roll back CU at every synchronisation point (up to `interferences` times).  At the moment the relay's CU is
// accepted the project's used CU is within max CU x (virtual epoch + 1), and the counter still equals the sum of
// the session CU sums.
func VerifC27ConcurrentPrepare() {
	max := verif_nondet_u64("epoch.MaxComputeUnits")
	used := verif_nondet_u64("epoch.UsedComputeUnits")
	ve := verif_nondet_u64("virtualEpoch")
	cuSum := verif_nondet_u64("session.CuSum")
	cu := verif_nondet_u64("relay.cu")
	verif_assume(max < 1<<48 && ve < 1<<10 && cu < 1<<32)
	limit := max * (ve + 1)
	verif_assume(used <= limit && cuSum <= used)
	epochData := &ProviderSessionsEpochData{MaxComputeUnits: max, UsedComputeUnits: used}
	parent := NewProviderSessionsWithConsumer("project", epochData, 1)
	sps := &SingleProviderSession{userSessionsParent: parent, CuSum: cuSum, SessionID: 1, PairingEpoch: 10}
	parent.Sessions[1] = sps
	sps.lock.Lock()
	verifC27Epoch, verifC27Limit, verifC27Ghost, verifC27Budget = epochData, limit, used, verif_param("interferences", 2)

	err := sps.PrepareSessionForUsage(context.Background(), cu, cuSum+cu, 0, ve)

	verifC27Budget = 0 // observe the state right after the call
	if err != nil {
		verif_assert("rejected-relay-leaves-session-cu", sps.CuSum == cuSum && sps.LatestRelayCu == 0)
		verif_assert("rejected-relay-adds-nothing", epochData.UsedComputeUnits == verifC27Ghost)
		verif_reach("rejected")
		return
	}
	verif_assert("accepted-cu-within-limit-whatever-the-other-sessions-did", epochData.UsedComputeUnits <= limit)
	verif_assert("used-cu-is-sum-of-session-cu-sums", epochData.UsedComputeUnits == verifC27Ghost+cu && sps.CuSum == cuSum+cu)
	verif_reach("accepted")
}

// VerifC27ConcurrentUpdateCU: the reward server raises a session's CU sum (UpdateSessionCU) while relays on other
// sessions of the same project are accepted and rolled back at every synchronisation point.  Afterwards the
// project's used CU still equals the sum of its sessions' CU sums.
func VerifC27ConcurrentUpdateCU() {
	used := verif_nondet_u64("epoch.UsedComputeUnits")
	cuSum := verif_nondet_u64("session.CuSum")
	newCU := verif_nondet_u64("rewardServer.newCU")
	verif_assume(used < 1<<48 && cuSum <= used && newCU < 1<<48)
	psm := NewProviderSessionManager(&RPCProviderEndpoint{}, 5)
	parent, err := psm.registerNewConsumer("consumer", "project", 10, 1<<50, 1)
	verif_assert("registered", err == nil)
	parent.epochData.UsedComputeUnits = used
	sps := &SingleProviderSession{userSessionsParent: parent, CuSum: cuSum, SessionID: 1, PairingEpoch: 10}
	parent.Sessions[1] = sps
	verifC27Epoch, verifC27Limit, verifC27Ghost, verifC27Budget = parent.epochData, 1<<49, used, verif_param("interferences", 1)

	uerr := psm.UpdateSessionCU("consumer", 10, 1, newCU)

	verifC27Budget = 0
	verif_assert("update-succeeds", uerr == nil)
	want := verifC27Ghost
	if newCU > cuSum {
		want += newCU - cuSum
		verif_assert("session-cu-raised", sps.CuSum == newCU)
	} else {
		verif_assert("lower-cu-ignored", sps.CuSum == cuSum)
	}
	verif_assert("used-cu-is-sum-of-session-cu-sums-after-reward-server-update", parent.epochData.UsedComputeUnits == want)
	verif_reach("end")
}
