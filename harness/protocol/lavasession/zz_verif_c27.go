package lavasession

import "context"

// VerifC27Prepare: one relay arrives on a locked provider session from an arbitrary consistent state
// (used CU of the consumer's project within the limit, the session's CU sum part of it), with an arbitrary
// consumer-chosen total CU. Then the relay fails and is rolled back.
func VerifC27Prepare() {
	max := verif_nondet_u64("epoch.MaxComputeUnits")
	used := verif_nondet_u64("epoch.UsedComputeUnits")
	ve := verif_nondet_u64("virtualEpoch")
	cuSum := verif_nondet_u64("session.CuSum")
	cuFromSpec := verif_nondet_u64("cuFromSpec")
	total := verif_nondet_u64("relayRequestTotalCU") // consumer-signed CuSum of the incoming relay: arbitrary
	verif_assume(max < 1<<48 && ve < 1<<10)          // max*(ve+1) does not wrap
	limit := max * (ve + 1)
	verif_assume(used <= limit && cuSum <= used) // state invariant: used CU within limit, session sum part of it
	verif_assume(cuFromSpec < 1<<32)
	// consumer and provider agree on the CU sum or the consumer pays more (the mismatch branch uses float64
	// thresholds, which the encoder does not model)
	verif_assume(total >= cuSum+cuFromSpec)
	epochData := &ProviderSessionsEpochData{MaxComputeUnits: max, UsedComputeUnits: used}
	parent := NewProviderSessionsWithConsumer("project", epochData, 1)
	sps := &SingleProviderSession{userSessionsParent: parent, CuSum: cuSum, SessionID: 1, PairingEpoch: 10}
	parent.Sessions[1] = sps
	sps.lock.Lock()

	err := sps.PrepareSessionForUsage(context.Background(), cuFromSpec, total, 0, ve)

	usedAfter := epochData.UsedComputeUnits
	if err != nil {
		verif_assert("rejected-relay-leaves-used-cu", usedAfter == used)
		verif_assert("rejected-relay-leaves-session-cu", sps.CuSum == cuSum && sps.LatestRelayCu == 0)
		verif_reach("rejected")
		return
	}
	verif_assert("accepted-cu-within-max-times-virtual-epochs", usedAfter <= limit)
	verif_assert("used-cu-grows-by-session-cu", usedAfter >= used && usedAfter-used == sps.CuSum-cuSum)
	verif_assert("session-cu-sum-is-consumer-total", sps.CuSum == total && sps.LatestRelayCu == total-cuSum)
	verif_reach("accepted")

	// the relay fails while the epoch is still valid: full rollback
	ferr := sps.onSessionFailure()
	verif_assert("failure-handled", ferr == nil)
	verif_assert("failed-relay-cu-rolled-back", epochData.UsedComputeUnits == used && sps.CuSum == cuSum && sps.LatestRelayCu == 0)
	verif_reach("rolled-back")
}
