package lavasession

import "context"

// VerifC27Prepare: one relay arrives on a locked provider session from an arbitrary consistent state
// (used CU of the consumer's project within the limit, the session's CU sum part of it), with an arbitrary
// consumer-chosen total CU. Then the relay fails and is rolled back.
func VerifC27Prepare() {
	max := verif_nondet_u64("epoch.MaxComputeUnits")
	used := verif_nondet_u64("epoch.UsedComputeUnits")
	ve := verif_nondet_u64("virtualEpoch")
	cuSum := verif_nondet_u64("session.CuSum")
	cuFromSpec := verif_nondet_u64("cuFromSpec")
	total := verif_nondet_u64("relayRequestTotalCU") // consumer-signed CuSum of the incoming relay: arbitrary
	verif_assume(max < 1<<48 && ve < 1<<10)          // max*(ve+1) does not wrap
	limit := max * (ve + 1)
	verif_assume(used <= limit && cuSum <= used) // state invariant: used CU within limit, session sum part of it
	verif_assume(cuFromSpec < 1<<32)
	// consumer and provider agree on the CU sum or the consumer pays more (the mismatch branch uses float64
	// thresholds, which the encoder does not model)
	verif_assume(total >= cuSum+cuFromSpec)
	epochData := &ProviderSessionsEpochData{MaxComputeUnits: max, UsedComputeUnits: used}
	parent := NewProviderSessionsWithConsumer("project", epochData, 1)
	sps := &SingleProviderSession{userSessionsParent: parent, CuSum: cuSum, SessionID: 1, PairingEpoch: 10}
	parent.Sessions[1] = sps
	sps.lock.Lock()

	err := sps.PrepareSessionForUsage(context.Background(), cuFromSpec, total, 0, ve)

	usedAfter := epochData.UsedComputeUnits
	if err != nil {
		verif_assert("rejected-relay-leaves-used-cu", usedAfter == used)
		verif_assert("rejected-relay-leaves-session-cu", sps.CuSum == cuSum && sps.LatestRelayCu == 0)
		verif_reach("rejected")
		return
	}
	verif_assert("accepted-cu-within-max-times-virtual-epochs", usedAfter <= limit)
	verif_assert("used-cu-grows-by-session-cu", usedAfter >= used && usedAfter-used == sps.CuSum-cuSum)
	verif_assert("session-cu-sum-is-consumer-total", sps.CuSum == total && sps.LatestRelayCu == total-cuSum)
	verif_reach("accepted")

	// the relay fails while the epoch is still valid: full rollback
	ferr := sps.onSessionFailure()
	verif_assert("failure-handled", ferr == nil)
	verif_assert("failed-relay-cu-rolled-back", epochData.UsedComputeUnits == used && sps.CuSum == cuSum && sps.LatestRelayCu == 0)
	verif_reach("rolled-back")
}

// VerifC27RegisterRace: two first relays of a not-yet-registered project in one epoch.  Relay B saw
// ConsumerNotRegisteredYet under the read lock; before B takes the write lock in registerNewConsumer, relay A may
// (raced) or may not have registered the project, obtained its session and been accepted.  Whatever happened, B's
// registration must end with both sessions charging the same per-project counter: accepted CU never exceeds the
// project's max CU and the counter equals the sum of the project's session CU sums.
func VerifC27RegisterRace() {
	max := verif_nondet_u64("MaxComputeUnits")
	cuA := verif_nondet_u64("relayA.cu")
	cuB := verif_nondet_u64("relayB.cu")
	raced := verif_nondet_bool("relayA.registeredFirst")
	sameConsumer := verif_nondet_bool("sameConsumerAddress")
	verif_assume(max < 1<<48 && cuA < 1<<48 && cuB < 1<<48)
	psm := NewProviderSessionManager(&RPCProviderEndpoint{}, 5)
	ctx := context.Background()
	consumerB := "consumerB"
	if sameConsumer {
		consumerB = "consumerA"
	}
	var accepted uint64
	var parentA *ProviderSessionsWithConsumerProject
	var sessA *SingleProviderSession
	if raced {
		var err error
		parentA, err = psm.registerNewConsumer("consumerA", "project", 10, max, 1)
		verif_assert("first-registration-succeeds", err == nil && parentA != nil)
		sessA, err = psm.GetSession(ctx, "consumerA", 10, 1, 1)
		verif_assert("first-session-created", err == nil && sessA != nil)
		if sessA.PrepareSessionForUsage(ctx, cuA, cuA, 0, 0) == nil {
			accepted += cuA
		}
		verif_assert("first-relay-within-max", accepted <= max)
	}
	// relay B: passed IsActiveProject earlier (not registered then), now registers
	parentB, err := psm.registerNewConsumer(consumerB, "project", 10, max, 1)
	verif_assert("second-registration-succeeds", err == nil && parentB != nil)
	if raced {
		verif_assert("existing-project-entry-is-kept", parentB == parentA)
	}
	sessB, err := psm.GetSession(ctx, consumerB, 10, 2, 1)
	verif_assert("second-session-created", err == nil && sessB != nil && sessB != sessA)
	if sessB.PrepareSessionForUsage(ctx, cuB, cuB, 0, 0) == nil {
		accepted += cuB
	}
	verif_assert("accepted-cu-of-project-within-max", accepted <= max)
	sum := sessB.CuSum
	if raced {
		sum += sessA.CuSum
	}
	verif_assert("project-used-cu-is-sum-of-its-sessions", sessB.userSessionsParent.atomicReadUsedComputeUnits() == sum && sum == accepted)
	cur, aerr := psm.IsActiveProject(10, "project")
	verif_assert("sessions-charge-the-registered-project-entry", aerr == nil && cur == sessB.userSessionsParent && (!raced || cur == sessA.userSessionsParent))
	verif_reach("end")
}

// VerifC27RelayNumber: replay protection.  A session that completed relay number n hands itself out only for a
// relay number above n; a completed relay stores its number; the rejected request leaves the session unlocked and
// unchanged.
func VerifC27RelayNumber() {
	stored := verif_nondet_u64("session.RelayNum")
	req := verif_nondet_u64("request.relayNumber")
	next := verif_nondet_u64("nextRequest.relayNumber")
	verif_assume(stored < 1<<62)
	psm := NewProviderSessionManager(&RPCProviderEndpoint{}, 5)
	ctx := context.Background()
	parent, err := psm.registerNewConsumer("consumerA", "project", 10, 1000, 1)
	verif_assert("registered", err == nil)
	sps := &SingleProviderSession{userSessionsParent: parent, SessionID: 1, PairingEpoch: 10, RelayNum: stored}
	parent.Sessions[1] = sps

	got, err := psm.GetSession(ctx, "consumerA", 10, 1, req)
	if err != nil {
		verif_assert("only-stale-relay-numbers-are-rejected", req <= stored)
		verif_assert("rejected-request-leaves-session-free-and-unchanged", sps.lock.TryLock() && sps.RelayNum == stored && sps.CuSum == 0)
		verif_reach("rejected")
		return
	}
	verif_assert("accepted-relay-number-is-above-every-completed-one", got == sps && req > stored)
	verif_assert("session-is-held-by-the-relay", !sps.lock.TryLock())
	verif_assert("relay-done", psm.OnSessionDone(sps, req) == nil)
	verif_assert("completed-relay-number-recorded", sps.RelayNum == req)
	// the same or an older number can not be used again
	_, err2 := psm.GetSession(ctx, "consumerA", 10, 1, next)
	verif_assert("replayed-or-older-relay-number-rejected", (err2 == nil) == (next > req))
	verif_reach("accepted")
}
