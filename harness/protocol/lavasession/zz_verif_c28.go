package lavasession

import (
	"context"
	"errors"
	"time"

	sdkmath "cosmossdk.io/math"
	sdk "github.com/cosmos/cosmos-sdk/types"
	"github.com/lavanet/lava/v5/protocol/provideroptimizer"
	"github.com/lavanet/lava/v5/protocol/qos"
	pairingtypes "github.com/lavanet/lava/v5/x/pairing/types"
	"google.golang.org/grpc/codes"
)

type verifC28Optimizer struct{}

func (verifC28Optimizer) AppendProbeRelayData(string, time.Duration, bool)      {}
func (verifC28Optimizer) AppendRelayFailure(string)                             {}
func (verifC28Optimizer) AppendRelayData(string, time.Duration, uint64, uint64) {}
func (verifC28Optimizer) ChooseProvider(context.Context, []string, map[string]struct{}, uint64, int64) []string {
	return nil
}
func (verifC28Optimizer) ChooseProviderWithStats(context.Context, []string, map[string]struct{}, uint64, int64) ([]string, *provideroptimizer.SelectionStats) {
	return nil, nil
}
func (verifC28Optimizer) ChooseBestProvider(context.Context, []string, map[string]struct{}, uint64, int64) []string {
	return nil
}
func (verifC28Optimizer) ChooseBestProviderWithStats(context.Context, []string, map[string]struct{}, uint64, int64) ([]string, *provideroptimizer.SelectionStats) {
	return nil, nil
}
func (verifC28Optimizer) GetReputationReportForProvider(string) (*pairingtypes.QualityOfServiceReport, time.Time) {
	return nil, time.Time{}
}
func (verifC28Optimizer) Strategy() provideroptimizer.Strategy { return provideroptimizer.StrategyBalanced }
func (verifC28Optimizer) UpdateWeights(map[string]int64, uint64) {}

// stubs of the symbolic run (QoS bookkeeping is float arithmetic and not part of the CU accounting)
func verifC28CalculateQoS(qm *qos.QoSManager, epoch uint64, sessionID int64, providerAddress string, latency, expectedLatency time.Duration, syncGap int64, numOfProviders int, servicersToCount int64) {
}
func verifC28AddFailedRelay(qm *qos.QoSManager, epoch uint64, sessionID int64) {}
func verifC28SetLastReputation(qm *qos.QoSManager, epoch uint64, sessionID int64, report *pairingtypes.QualityOfServiceReport) {
}
func verifC28StatusCode(err error) codes.Code { return codes.Unknown }

// VerifC28SessionLifecycle: one relay takes a consumer session of a provider whose used CU is within its limit,
// reserves the relay's CU and then completes, completes without QoS (subscription), or fails (plain error or
// session-out-of-sync).  While it holds the session nobody else can take it; used CU = completed + in-flight CU
// and never exceeds max CU x (virtual epoch + 1); the relay signs completed CU + its own CU; relay numbers increase
// by one per use; a failure gives the reserved CU back in full.
func VerifC28SessionLifecycle() {
	max := verif_nondet_u64("provider.MaxComputeUnits")
	used := verif_nondet_u64("provider.UsedComputeUnits")
	ve := verif_nondet_u64("virtualEpoch")
	cuSum := verif_nondet_u64("session.CuSum")
	relayNum := verif_nondet_u64("session.RelayNum")
	cu := verif_nondet_u64("relay.cu")
	outcome := verif_nondet_range("relay.outcome", 0, 3) // 0 done, 1 done (CU only), 2 failed, 3 failed: session out of sync
	priorErrors := verif_nondet_range("session.consecutiveErrorsBefore", 0, 1) * MaximumNumberOfFailuresAllowedPerConsumerSession
	verif_assume(max < 1<<48 && ve < 1<<10 && cu < 1<<32 && relayNum < 1<<62)
	limit := max * (ve + 1)
	verif_assume(used <= limit && cuSum <= used) // invariant: the session's completed CU is part of the provider's used CU
	verif_assume(used >= 1)                      // (a first-ever relay that fails also blocks and reports the provider: GetSessions' provider choice is outside this harness)

	csm := NewConsumerSessionManager(&RPCEndpoint{ChainID: "LAV1", ApiInterface: "rest"}, verifC28Optimizer{}, nil, "consumer", nil)
	parent := NewConsumerSessionWithProvider("provider", []*Endpoint{{NetworkAddress: "provider:443", Enabled: true}}, max, 20, sdk.Coin{Denom: "ulava", Amount: sdkmath.ZeroInt()})
	parent.UsedComputeUnits = used
	scs := &SingleConsumerSession{Parent: parent, CuSum: cuSum, RelayNum: relayNum, SessionId: 7, QoSManager: csm.qosManager, epoch: 20}
	for i := 0; i < priorErrors; i++ {
		scs.ConsecutiveErrors = append(scs.ConsecutiveErrors, errors.New("earlier failure"))
	}
	parent.Sessions[7] = scs

	// acquisition, in the order GetSessions performs it
	blocked, ok := scs.TryUseSession()
	verif_assert("free-session-can-be-taken", ok && !blocked)
	_, ok2 := scs.TryUseSession()
	verif_assert("held-session-is-not-handed-out-again", !ok2)
	if err := parent.addUsedComputeUnits(cu, ve); err != nil {
		verif_assert("reservation-refused-only-above-the-limit", used+cu > limit)
		verif_assert("refused-reservation-leaves-used-cu", parent.UsedComputeUnits == used)
		scs.Free(nil)
		verif_reach("refused")
		return
	}
	verif_assert("used-cu-within-max-times-virtual-epochs", parent.UsedComputeUnits == used+cu && used+cu <= limit)
	up := NewUsedProviders(nil)
	verif_assert("usage-set", scs.SetUsageForSession(cu, nil, up, NewRouterKey(nil)) == nil)
	verif_assert("relay-number-increases-by-one", scs.RelayNum == relayNum+1)
	verif_assert("relay-signs-completed-cu-plus-its-own", scs.CuSum+scs.LatestRelayCu == cuSum+cu)

	switch outcome {
	case 0:
		err := csm.OnSessionDone(scs, 100, cu, time.Millisecond, time.Second, 0, 3, 3, false, nil)
		verif_assert("done-succeeds", err == nil)
	case 1:
		err := csm.OnSessionDoneIncreaseCUOnly(scs, 100)
		verif_assert("done-succeeds", err == nil)
	case 2:
		err := csm.OnSessionFailure(scs, errors.New("relay failed"))
		verif_assert("failure-handled", err == nil)
	case 3:
		err := csm.OnSessionFailure(scs, SessionOutOfSyncError)
		verif_assert("failure-handled", err == nil)
	}
	if outcome <= 1 {
		verif_assert("completed-relay-cu-moves-to-the-session-sum", scs.CuSum == cuSum+cu && scs.LatestRelayCu == 0)
		verif_assert("completed-relay-keeps-used-cu", parent.UsedComputeUnits == used+cu)
		verif_assert("success-clears-consecutive-errors", len(scs.ConsecutiveErrors) == 0 && !scs.BlockListed)
		verif_reach("done")
	} else {
		verif_assert("failed-relay-cu-returned-in-full", parent.UsedComputeUnits == used && scs.CuSum == cuSum && scs.LatestRelayCu == 0)
		verif_assert("session-blocked-iff-out-of-sync-or-too-many-failures", scs.BlockListed == (outcome == 3 || priorErrors+1 > MaximumNumberOfFailuresAllowedPerConsumerSession))
		verif_reach("failed")
	}
	verif_assert("relay-number-not-touched-by-completion", scs.RelayNum == relayNum+1)
	verif_assert("session-cu-stays-part-of-used-cu", scs.CuSum <= parent.UsedComputeUnits)
	// released: the next relay can take it unless it was blocked
	blockedNext, okNext := scs.TryUseSession()
	verif_assert("session-released-after-the-relay", okNext == !scs.BlockListed && blockedNext == scs.BlockListed)
}

// stub of the symbolic run: UsedProviders.RemoveUsed classifies the error with regular expressions (outside the encoder)
func verifC28RemoveUsed(up *UsedProviders, providerAddress string, routerKey RouterKey, err error) {}

// ---- other relays as interference at lock acquisitions (symbolic run only) ----
// verifC28Interfere runs before every lock acquisition / atomic operation of the executed thread; the provider lock
// is not held by the thread at those points in the functions exercised below, so other relays may have reserved or
// released CU meanwhile: used CU moves to any value within the limit (they run the same locked check).
var (
	verifC28Parent *ConsumerSessionsWithProvider
	verifC28Limit  uint64
	verifC28Budget int
)

func verifC28Interfere() {
	if verifC28Parent == nil || verifC28Budget == 0 {
		return
	}
	if !verif_nondet_bool("otherRelays.actNow") {
		return
	}
	verifC28Budget--
	nv := verif_nondet_u64("otherRelays.usedCuAfter")
	verif_assume(nv <= verifC28Limit)
	verifC28Parent.UsedComputeUnits = nv
}

// VerifC28ConcurrentReserve: reserving a relay's CU while other relays of the same provider reserve and release CU
// at every lock acquisition: whenever the reservation succeeds the provider's used CU is within its limit.
func VerifC28ConcurrentReserve() {
	max := verif_nondet_u64("provider.MaxComputeUnits")
	used := verif_nondet_u64("provider.UsedComputeUnits")
	ve := verif_nondet_u64("virtualEpoch")
	cu := verif_nondet_u64("relay.cu")
	verif_assume(max < 1<<48 && ve < 1<<10 && cu < 1<<32)
	limit := max * (ve + 1)
	verif_assume(used <= limit)
	parent := NewConsumerSessionWithProvider("provider", nil, max, 20, sdk.Coin{Denom: "ulava", Amount: sdkmath.ZeroInt()})
	parent.UsedComputeUnits = used
	verifC28Parent, verifC28Limit, verifC28Budget = parent, limit, verif_param("interferences", 2)

	err := parent.addUsedComputeUnits(cu, ve)

	verifC28Budget = 0
	if err == nil {
		verif_assert("reserved-cu-within-limit-whatever-the-other-relays-did", parent.UsedComputeUnits <= limit)
		verif_reach("reserved")
	} else {
		verif_reach("refused")
	}
}
