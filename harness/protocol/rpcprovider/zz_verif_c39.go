package rpcprovider

import (
	"context"
	"fmt"

	btcSecp256k1 "github.com/btcsuite/btcd/btcec/v2"
	sdk "github.com/cosmos/cosmos-sdk/types"
	"github.com/lavanet/lava/v5/protocol/lavasession"
	"github.com/lavanet/lava/v5/utils/sigs"
	pairingtypes "github.com/lavanet/lava/v5/x/pairing/types"
)

// stubs of the symbolic run: a signature names its signer, the hash is the identity (collision-freedom assumed),
// bech32 rendering is the identity.  The native replay signs with real keys and hashes with SHA-256.
func verifC39ExtractSigner(data sigs.Signable) (sdk.AccAddress, error) {
	sig := data.GetSignature()
	if len(sig) != 1 || sig[0] == 0 {
		return nil, fmt.Errorf("bad signature")
	}
	return sdk.AccAddress([]byte{'c', '0' + sig[0]}), nil
}

func verifC39Hash(msg []byte) []byte { return msg }

func verifC39AccString(aa sdk.AccAddress) string { return string(aa) }

type verifC39Tracker struct {
	StateTrackerInf
	pairingValid bool
	pairingErr   bool
	maxCuErr     bool
	verifyCalls  int
	askedFor     string
	askedEpoch   uint64
	maxCuEpoch   uint64
	latest       int64
}

func (t *verifC39Tracker) LatestBlock() int64 { return t.latest }
func (t *verifC39Tracker) VerifyPairing(ctx context.Context, consumerAddress, providerAddress string, epoch uint64, chainID string) (bool, int64, string, error) {
	t.verifyCalls++
	t.askedFor, t.askedEpoch = consumerAddress, epoch
	if t.pairingErr {
		return false, 0, "", fmt.Errorf("pairing query failed")
	}
	return t.pairingValid, 3, "project", nil
}
func (t *verifC39Tracker) GetMaxCuForUser(ctx context.Context, consumerAddress, chainID string, epoch uint64) (uint64, error) {
	t.maxCuEpoch = epoch
	if t.maxCuErr {
		return 0, fmt.Errorf("max cu query failed")
	}
	return 1000, nil
}
func (t *verifC39Tracker) GetVirtualEpoch(epoch uint64) uint64 { return 0 }

// VerifC39VerifySession: a relay request that is valid except for symbolically chosen corruptions reaches the
// provider's verifyRelaySession.  A session is handed out (the relay will be served and its proof kept) only if
// the request names this provider, its spec and its lava chain, an epoch the provider still accepts, carries the
// hash of its own data, is signed, and the signer is already registered for that epoch or the chain pairs it with
// this provider.  A rejected request registers nothing and leaves no session locked.
func VerifC39VerifySession() {
	providerCase := verif_nondet_range("request.provider", 0, 2)     // 0 this provider, 1 another one, 2 empty
	specCase := verif_nondet_range("request.specId", 0, 2)           // 0 the endpoint's spec, 1 another one, 2 empty
	lavaChainCase := verif_nondet_range("request.lavaChainId", 0, 2) // 0 this network, 1 another one, 2 empty
	wrongProvider, wrongSpec, wrongLavaChain := providerCase != 0, specCase != 0, lavaChainCase != 0
	oldEpoch := verif_nondet_bool("request.epochNoLongerAccepted")
	hashCase := verif_nondet_range("request.contentHash", 0, 2) // 0 hash of the carried data, 1 data changed after hashing, 2 hash of other data
	badSig := verif_nondet_bool("request.unverifiableSignature")
	registered := verif_nondet_bool("consumer.alreadyRegisteredForEpoch")
	tracker := &verifC39Tracker{pairingValid: verif_nondet_bool("chain.pairsConsumerWithProvider"), pairingErr: verif_nondet_bool("chain.pairingQueryFails"),
		maxCuErr: verif_nondet_bool("chain.maxCuQueryFails"), latest: int64(verif_nondet_range("provider.latestLavaBlock", 0, 2)) * 50} // 0, 50 (behind the relay's epoch) or 100
	relayNum := verif_nondet_u64("request.relayNum")
	verif_assume(relayNum < 1<<32)

	var key *btcSecp256k1.PrivateKey
	consumer := "c1"
	self := sdk.AccAddress("p1")
	other := sdk.AccAddress("p2")
	if !verif_symbolic() {
		var addr sdk.AccAddress
		key, addr = sigs.GenerateFloatingKey()
		consumer = addr.String()
		_, self = sigs.GenerateFloatingKey()
		_, other = sigs.GenerateFloatingKey()
	}
	psm := lavasession.NewProviderSessionManager(&lavasession.RPCProviderEndpoint{ChainID: "LAV1"}, 20)
	psm.UpdateEpoch(60) // epochs <= 40 are no longer accepted
	if registered {
		s, err := psm.RegisterProviderSessionWithConsumer(context.Background(), consumer, 80, 7, 1, 1000, 3, "project")
		if err != nil {
			panic(err)
		}
		psm.OnSessionDone(s, 1)
	}
	srv := &RPCProviderServer{providerSessionManager: psm, stateTracker: tracker, providerAddress: self, lavaChainID: "lava",
		rpcProviderEndpoint: &lavasession.RPCProviderEndpoint{ChainID: "LAV1"}}

	data := &pairingtypes.RelayPrivateData{ConnectionType: "GET", ApiUrl: "u", Data: []byte{verif_nondet_byte("request.data")}, RequestBlock: 5, ApiInterface: "rest", Salt: []byte{1}}
	sess := &pairingtypes.RelaySession{SpecId: "LAV1", SessionId: 9, CuSum: 10, Provider: self.String(), RelayNum: relayNum, Epoch: 80, LavaChainId: "lava"}
	sess.Provider = []string{self.String(), other.String(), ""}[providerCase]
	sess.SpecId = []string{"LAV1", "ETH1", ""}[specCase]
	sess.LavaChainId = []string{"lava", "other", ""}[lavaChainCase]
	if oldEpoch {
		sess.Epoch = 40
	}
	sess.ContentHash = sigs.HashMsg(data.GetContentHashData())
	if hashCase == 2 {
		otherData := *data
		otherData.ApiUrl = "v"
		sess.ContentHash = sigs.HashMsg(otherData.GetContentHashData())
	}
	if verif_symbolic() {
		sess.Sig = []byte{1}
		if badSig {
			sess.Sig = []byte{0}
		}
	} else {
		sig, err := sigs.Sign(key, *sess)
		if err != nil {
			panic(err)
		}
		sess.Sig = sig
		if badSig {
			sess.Sig = make([]byte, 65)
		}
	}
	if hashCase == 1 {
		data.Data = []byte{data.Data[0] + 1} // tampered in flight: no longer what was hashed and signed
	}
	req := &pairingtypes.RelayRequest{RelaySession: sess, RelayData: data}

	got, addr, err := srv.verifyRelaySession(context.Background(), req)

	_, regErr := psm.IsActiveProject(uint64(sess.Epoch), "project")
	nowRegistered := regErr == nil
	if err == nil {
		verif_assert("served-request-names-this-provider-spec-and-lava-chain", !wrongProvider && !wrongSpec && !wrongLavaChain)
		verif_assert("served-request-is-for-an-accepted-epoch", !oldEpoch)
		verif_assert("served-request-carries-the-hash-of-its-data", hashCase == 0)
		verif_assert("served-request-is-signed", !badSig && addr.String() == consumer)
		verif_assert("served-consumer-registered-before-or-paired-by-the-chain-for-that-epoch", registered || (tracker.pairingValid && !tracker.pairingErr && !tracker.maxCuErr && tracker.askedFor == consumer && tracker.askedEpoch == 80 && tracker.maxCuEpoch == 80))
		verif_assert("session-handed-out-locked-for-this-relay", got != nil && got.SessionID == 9 && got.PairingEpoch == 80)
		verif_reach("served")
		return
	}
	verif_assert("rejected-request-gets-no-session", got == nil)
	authentic := !wrongProvider && !wrongSpec && !wrongLavaChain && !oldEpoch && hashCase == 0 && !badSig &&
		(registered || (tracker.pairingValid && !tracker.pairingErr && !tracker.maxCuErr))
	if !authentic {
		verif_assert("request-failing-a-validity-or-pairing-check-registers-nothing", nowRegistered == (registered && !oldEpoch))
	}
	if nowRegistered {
		// (an authentic, paired consumer whose relay number is out of sync may have been registered; no CU is taken and no session stays locked)
		p, _ := psm.IsActiveProject(uint64(sess.Epoch), "project")
		for _, s := range p.Sessions {
			verif_assert("rejected-request-uses-no-cu-and-leaves-no-session-locked", s.CuSum == 0 && s.LatestRelayCu == 0 && s.VerifyLock() != nil)
		}
	}
	if wrongProvider || wrongSpec || wrongLavaChain || oldEpoch || hashCase != 0 || badSig {
		verif_assert("invalid-request-never-reaches-the-pairing-query", tracker.verifyCalls == 0)
	} else {
		verif_assert("valid-request-is-rejected-only-for-pairing-or-session-reasons", (!registered && (!tracker.pairingValid || tracker.pairingErr || tracker.maxCuErr)) || relayNum == 0)
	}
	verif_reach("rejected")
}
