package rewardserver

import (
	"context"
	"strings"
	"time"

	"github.com/goccy/go-json"

	pairingtypes "github.com/lavanet/lava/v5/x/pairing/types"
)

// VerifC29KeepsBest: k proofs for sessions 1..2 of one consumer/chain/epoch arrive in an arbitrary order with
// arbitrary cumulative CU; afterwards the server holds, per session, a proof with the highest CU it received.
func VerifC29KeepsBest() {
	k := verif_param("proofs", 3)
	rws := &RewardServer{rewards: map[uint64]*EpochRewards{}}
	var best [3]uint64
	var seen [3]bool
	for i := 0; i < k; i++ {
		sid := uint64(verif_nondet_range("proof.SessionId", 1, 2))
		cu := verif_nondet_u64("proof.CuSum")
		proof := &pairingtypes.RelaySession{SessionId: sid, CuSum: cu, Epoch: 10, SpecId: "LAV1", RelayNum: uint64(i + 1)}
		prevBest, had := best[sid], seen[sid]
		existing, updated := rws.saveProofInMemory(context.Background(), "consumer LAV1", proof, 10, "consumer")
		if !had || cu > prevBest {
			verif_assert("better-proof-replaces-stored-one", updated)
		} else if cu < prevBest {
			verif_assert("worse-proof-is-not-stored", !updated && existing == prevBest)
		}
		if !had || cu > prevBest {
			best[sid] = cu
		}
		seen[sid] = true
	}
	er := rws.rewards[10]
	verif_assert("epoch-entry-exists", er != nil && er.consumerRewards["consumer LAV1"] != nil)
	proofs := er.consumerRewards["consumer LAV1"].proofs
	for sid := uint64(1); sid <= 2; sid++ {
		p, ok := proofs[sid]
		verif_assert("stored-iff-received", ok == seen[sid])
		if ok {
			verif_assert("stored-proof-has-highest-cu-received", p.CuSum == best[sid] && p.SessionId == sid)
		}
	}
	verif_reach("end")
}

// ---- restart path: proofs snapshotted to the reward DB are restored and claimed in their window ----

type verifC29DB struct {
	DB
	entries  map[string][]byte
	deleted  []string // prefixes passed to DeletePrefix
	entities []*RewardEntity
}

func (d *verifC29DB) Key() string                         { return "LAV1" }
func (d *verifC29DB) FindAll() (map[string][]byte, error) { return d.entries, nil }
func (d *verifC29DB) DeletePrefix(prefix string) error {
	d.deleted = append(d.deleted, prefix)
	for k := range d.entries {
		if strings.HasPrefix(k, prefix) {
			delete(d.entries, k)
		}
	}
	return nil
}

// symbolic run: the JSON codec is a table lookup (stub of go-json Unmarshal); native: real JSON
var verifC29Entities []*RewardEntity

func verifC29Unmarshal(data []byte, v interface{}, opts ...json.DecodeOptionFunc) error {
	*(v.(*RewardEntity)) = *verifC29Entities[int(data[0])]
	return nil
}

func verifC29WithTimeout(parent context.Context, d time.Duration) (context.Context, context.CancelFunc) {
	return parent, func() {}
}

type verifC29Sender struct {
	RewardsTxSender
	earliest uint64
	distance uint64
}

func (s verifC29Sender) EarliestBlockInMemory(ctx context.Context) (uint64, error) {
	return s.earliest, nil
}
func (s verifC29Sender) GetEpochSizeMultipliedByRecommendedEpochNumToCollectPayment(ctx context.Context) (uint64, error) {
	return s.distance, nil
}

// VerifC29RestoreAndClaim: after a restart the reward DB holds k snapshotted proofs (epochs 10/20/30, sessions 1/2,
// arbitrary CU).  restoreRewardsFromDB runs with an arbitrary earliest epoch still in chain memory; then the claim
// gathering runs at an arbitrary current epoch.  A proof whose epoch is still in chain memory is restored (and not
// deleted from the DB); one that left chain memory is dropped; a restored proof is handed out for claiming exactly
// when its epoch is no longer active, once.
func VerifC29RestoreAndClaim() {
	k := verif_param("proofs", 2)
	earliest := uint64(verif_nondet_range("earliestEpochInChainMemory", 5, 35))
	verif_assume(earliest%5 == 0)
	db := &verifC29DB{entries: map[string][]byte{}}
	rdb := NewRewardDB()
	if err := rdb.AddDB(db); err != nil {
		panic(err)
	}
	verifC29Entities = nil
	epochs := make([]uint64, k)
	sessions := make([]uint64, k)
	cus := make([]uint64, k)
	for i := 0; i < k; i++ {
		epochs[i] = uint64(10 * verif_nondet_range("proof.epoch", 1, 3))
		sessions[i] = uint64(verif_nondet_range("proof.session", 1, 2))
		cus[i] = verif_nondet_u64("proof.CuSum")
		dup := false
		for j := 0; j < i; j++ {
			if epochs[j] == epochs[i] && sessions[j] == sessions[i] {
				dup = true
			}
		}
		verif_assume(!dup) // the DB key (epoch, consumer, session, consumer key) is unique
		ent := &RewardEntity{Epoch: epochs[i], ConsumerAddr: "consumer", ConsumerKey: "consumer LAV1", SessionId: sessions[i],
			Proof: &pairingtypes.RelaySession{SessionId: sessions[i], CuSum: cus[i], Epoch: int64(epochs[i]), SpecId: "LAV1"}}
		key := rdb.assembleKey(ent.Epoch, ent.ConsumerAddr, ent.SessionId, ent.ConsumerKey)
		if verif_symbolic() {
			verifC29Entities = append(verifC29Entities, ent)
			db.entries[key] = []byte{byte(i)}
		} else {
			bz, err := json.Marshal(ent)
			if err != nil {
				panic(err)
			}
			db.entries[key] = bz
		}
	}
	current := uint64(verif_nondet_range("currentEpoch", 30, 60))
	verif_assume(current%10 == 0 && current >= earliest)
	rws := &RewardServer{rewards: map[uint64]*EpochRewards{}, rewardDB: rdb, rewardsTxSender: verifC29Sender{earliest: earliest, distance: 20}}

	err := rws.restoreRewardsFromDB("LAV1")
	verif_assert("restore-succeeds", err == nil)
	for i := 0; i < k; i++ {
		var got *pairingtypes.RelaySession
		if er, ok := rws.rewards[epochs[i]]; ok {
			if cr, ok := er.consumerRewards["consumer LAV1"]; ok {
				got = cr.proofs[sessions[i]]
			}
		}
		key := rdb.assembleKey(epochs[i], "consumer", sessions[i], "consumer LAV1")
		_, inDB := db.entries[key]
		if epochs[i] >= earliest {
			verif_assert("proof-of-an-epoch-still-in-chain-memory-is-restored", got != nil && got.CuSum == cus[i] && got.SessionId == sessions[i])
			verif_assert("restored-proof-stays-in-the-db-until-claimed", inDB)
		} else {
			verif_assert("proof-of-an-epoch-out-of-chain-memory-is-dropped", got == nil && !inDB)
		}
	}

	claim, gerr := rws.gatherRewardsForClaim(context.Background(), current, earliest)
	verif_assert("gather-succeeds", gerr == nil)
	for i := 0; i < k; i++ {
		n := 0
		for _, p := range claim {
			if uint64(p.Epoch) == epochs[i] && p.SessionId == sessions[i] {
				n++
				verif_assert("claimed-proof-is-the-stored-one", p.CuSum == cus[i])
			}
		}
		claimable := epochs[i] >= earliest && epochs[i]+20 <= current
		if claimable {
			verif_assert("claimable-proof-handed-out-once", n == 1)
		} else {
			verif_assert("proof-outside-its-claim-window-not-handed-out", n == 0)
		}
	}
	again, _ := rws.gatherRewardsForClaim(context.Background(), current, earliest)
	verif_assert("proofs-are-handed-out-only-once", len(again) == 0)
	verif_reach("end")
	if len(claim) > 0 {
		verif_reach("claimed")
	}
}
