package rewardserver

import (
	"context"

	pairingtypes "github.com/lavanet/lava/v5/x/pairing/types"
)

// VerifC29KeepsBest: k proofs for sessions 1..2 of one consumer/chain/epoch arrive in an arbitrary order with
// arbitrary cumulative CU; afterwards the server holds, per session, a proof with the highest CU it received.
func VerifC29KeepsBest() {
	k := verif_param("proofs", 3)
	rws := &RewardServer{rewards: map[uint64]*EpochRewards{}}
	var best [3]uint64
	var seen [3]bool
	for i := 0; i < k; i++ {
		sid := uint64(verif_nondet_range("proof.SessionId", 1, 2))
		cu := verif_nondet_u64("proof.CuSum")
		proof := &pairingtypes.RelaySession{SessionId: sid, CuSum: cu, Epoch: 10, SpecId: "LAV1", RelayNum: uint64(i + 1)}
		prevBest, had := best[sid], seen[sid]
		existing, updated := rws.saveProofInMemory(context.Background(), "consumer LAV1", proof, 10, "consumer")
		if !had || cu > prevBest {
			verif_assert("better-proof-replaces-stored-one", updated)
		} else if cu < prevBest {
			verif_assert("worse-proof-is-not-stored", !updated && existing == prevBest)
		}
		if !had || cu > prevBest {
			best[sid] = cu
		}
		seen[sid] = true
	}
	er := rws.rewards[10]
	verif_assert("epoch-entry-exists", er != nil && er.consumerRewards["consumer LAV1"] != nil)
	proofs := er.consumerRewards["consumer LAV1"].proofs
	for sid := uint64(1); sid <= 2; sid++ {
		p, ok := proofs[sid]
		verif_assert("stored-iff-received", ok == seen[sid])
		if ok {
			verif_assert("stored-proof-has-highest-cu-received", p.CuSum == best[sid] && p.SessionId == sid)
		}
	}
	verif_reach("end")
}
