package cache

import (
	"time"

	"github.com/dgraph-io/ristretto/v2"
	pairingtypes "github.com/lavanet/lava/v5/x/pairing/types"
)

// model of the two ristretto stores for the symbolic run (stub of getNonExpiredFromCache); the native replay uses
// real ristretto caches filled with the same entry.
var (
	verifC36Fin, verifC36Tmp *ristretto.Cache[string, any]
	verifC36FinKey           string
	verifC36TmpKey           string
	verifC36FinVal           any
	verifC36TmpVal           any
	verifC36FinSet           bool
	verifC36TmpSet           bool
)

func verifC36GetNonExpired(c *ristretto.Cache[string, any], key string) (interface{}, bool) {
	if c == verifC36Fin {
		if verifC36FinSet && key == verifC36FinKey {
			return verifC36FinVal, true
		}
		return nil, false
	}
	if verifC36TmpSet && key == verifC36TmpKey {
		return verifC36TmpVal, true
	}
	return nil, false
}

func verifC36Bytes(name string, n int) []byte {
	if n == 0 {
		return nil
	}
	return verif_nondet_bytes(name, n)
}

// VerifC36CacheLookup: one entry is stored exactly as SetRelay stores it (formatCacheValue, formatHashKey, finalized
// or temporary store), then an arbitrary lookup runs getRelayInner.  A reply comes back only for the same request
// hash and requested block, only if the stored entry carries no block hash (finalized, or stored without one) or
// the lookup carries the identical block hash, and it is the stored reply byte for byte.  The matching lookup hits.
func VerifC36CacheLookup() {
	storedFinal := verif_nondet_bool("stored.finalized")
	h1 := verif_nondet_bytes("stored.requestHash", 2)
	b1 := int64(verif_nondet_in("stored.requestedBlock", 0, 300))
	bh1 := verifC36Bytes("stored.blockHash", verif_nondet_range("stored.blockHashLen", 0, 2))
	d1 := verif_nondet_bytes("stored.replyData", 2)
	lookFinal := verif_nondet_bool("lookup.finalized")
	h2 := verif_nondet_bytes("lookup.requestHash", 2)
	b2 := int64(verif_nondet_in("lookup.requestedBlock", 0, 300))
	bh2 := verifC36Bytes("lookup.blockHash", verif_nondet_range("lookup.blockHashLen", 0, 2))

	s := &RelayerCacheServer{CacheServer: &CacheServer{}}
	resp := &pairingtypes.RelayReply{Data: []byte{d1[0], d1[1]}, LatestBlock: 5, Sig: []byte{1}}
	val := formatCacheValue(resp, bh1, storedFinal, nil, 7)
	key := string(s.formatHashKey([]byte{h1[0], h1[1]}, b1))
	if verif_symbolic() {
		verifC36Fin, verifC36Tmp = new(ristretto.Cache[string, any]), new(ristretto.Cache[string, any])
		verifC36FinSet, verifC36TmpSet = false, false
		if storedFinal {
			verifC36FinKey, verifC36FinVal, verifC36FinSet = key, val, true
		} else {
			verifC36TmpKey, verifC36TmpVal, verifC36TmpSet = key, val, true
		}
	} else {
		var err error
		cfg := func() *ristretto.Config[string, any] {
			return &ristretto.Config[string, any]{NumCounters: 1000, MaxCost: 1 << 20, BufferItems: 64, IgnoreInternalCost: true}
		}
		if verifC36Fin, err = ristretto.NewCache(cfg()); err != nil {
			panic(err)
		}
		if verifC36Tmp, err = ristretto.NewCache(cfg()); err != nil {
			panic(err)
		}
		if storedFinal {
			verifC36Fin.SetWithTTL(key, val, 1, time.Hour)
		} else {
			verifC36Tmp.SetWithTTL(key, val, 1, time.Hour)
		}
		verifC36Fin.Wait()
		verifC36Tmp.Wait()
	}
	s.CacheServer.finalizedCache, s.CacheServer.tempCache = verifC36Fin, verifC36Tmp

	reply, err := s.getRelayInner(&pairingtypes.RelayCacheGet{RequestHash: h2, RequestedBlock: b2, BlockHash: bh2, Finalized: lookFinal})

	sameKey := h1[0] == h2[0] && h1[1] == h2[1] && b1 == b2
	sameBlockHash := len(bh1) == len(bh2)
	for i := 0; sameBlockHash && i < len(bh1); i++ {
		if bh1[i] != bh2[i] {
			sameBlockHash = false
		}
	}
	storedWithHash := !storedFinal && bh1 != nil
	if err == nil {
		verif_assert("hit-has-a-reply", reply != nil && reply.Reply != nil)
		verif_assert("hit-only-for-same-request-hash-and-requested-block", sameKey)
		verif_assert("entry-stored-with-block-hash-served-only-for-identical-block-hash", !storedWithHash || sameBlockHash)
		verif_assert("served-reply-is-stored-reply-byte-for-byte", len(reply.Reply.Data) == 2 && reply.Reply.Data[0] == d1[0] && reply.Reply.Data[1] == d1[1] && reply.Reply.LatestBlock == 5 && reply.SeenBlock == 7)
		verif_reach("hit")
	} else {
		verif_assert("matching-lookup-hits", !(sameKey && (!storedWithHash || sameBlockHash)))
		verif_reach("miss")
	}
}
