package keeper

import (
	"fmt"

	"cosmossdk.io/collections"
	"cosmossdk.io/math"
	"github.com/cosmos/cosmos-sdk/codec"
	storetypes "github.com/cosmos/cosmos-sdk/store/types"
	sdk "github.com/cosmos/cosmos-sdk/types"
	paramtypes "github.com/cosmos/cosmos-sdk/x/params/types"
	collcompat "github.com/lavanet/lava/v5/utils/collcompat"
	"github.com/lavanet/lava/v5/x/dualstaking/types"
	epochstoragetypes "github.com/lavanet/lava/v5/x/epochstorage/types"
)

// model epochstorage keeper: the provider's metadata and its current stake entries
type verifC07Epochs struct {
	types.EpochstorageKeeper
	meta    *epochstoragetypes.ProviderMetadata
	entries []*epochstoragetypes.StakeEntry
}

func (e verifC07Epochs) GetMetadata(ctx sdk.Context, provider string) (epochstoragetypes.ProviderMetadata, error) {
	if provider != e.meta.Provider {
		return epochstoragetypes.ProviderMetadata{}, fmt.Errorf("no metadata")
	}
	return *e.meta, nil
}
func (e verifC07Epochs) SetMetadata(ctx sdk.Context, m epochstoragetypes.ProviderMetadata) { *e.meta = m }
func (e verifC07Epochs) GetStakeEntryCurrent(ctx sdk.Context, chainID string, address string) (epochstoragetypes.StakeEntry, bool) {
	for _, en := range e.entries {
		if en.Chain == chainID && en.Address == address {
			return *en, true
		}
	}
	return epochstoragetypes.StakeEntry{}, false
}

func (e verifC07Epochs) SetStakeEntryCurrent(ctx sdk.Context, entry epochstoragetypes.StakeEntry) {
	for _, en := range e.entries {
		if en.Chain == entry.Chain && en.Address == entry.Address {
			*en = entry
		}
	}
}

type verifC07Specs struct{ types.SpecKeeper }

func (verifC07Specs) GetMinStake(ctx sdk.Context, chainID string) sdk.Coin {
	return sdk.NewCoin("ulava", math.NewInt(150))
}

func verifC07GetParams(k Keeper, ctx sdk.Context) types.Params {
	return types.NewParams(sdk.NewCoin("ulava", math.NewInt(20)))
}

// VerifC07DelegationChange: provider prov (vault vlt) staked on two chains; its metadata, entries and delegations start
// consistent (self stakes sum to the vault's delegation, recorded total delegations = the one delegator's delegation D,
// each entry's delegate total = floor(D * stake / total stake)).  One delegation-changing transaction follows: another
// delegator delegates, the delegator unbonds part or all, or the vault changes its self delegation through dual staking
// (amounts symbolic for the delegators, from a menu for the vault).  Afterwards the same cross-record invariants hold
// again, and an entry whose total stake fell below the spec minimum is frozen.
func VerifC07DelegationChange() {
	prov, vlt, dlg1, dlg2 := verifC10Addr("prov"), verifC10Addr("vlt"), verifC10Addr("dlg1"), verifC10Addr("dlg2")
	key := storetypes.NewKVStoreKey(types.StoreKey)
	ctx := verifCtx(100, 1700000000, key)
	cdc := verifCdc()
	stakes := [][2]int64{{100, 100}, {100, 300}}[verif_nondet_range("stakes.profile", 0, 1)]
	D := math.NewIntFromBigInt(verif_nondet_ubig("delegator1.delegation", 50))
	coin := func(a math.Int) sdk.Coin { return sdk.NewCoin("ulava", a) }
	total := math.NewInt(stakes[0] + stakes[1])
	meta := &epochstoragetypes.ProviderMetadata{Provider: prov, Vault: vlt, Chains: []string{"CHA", "CHB"}, TotalDelegations: coin(D)}
	ep := verifC07Epochs{meta: meta}
	for i, ch := range meta.Chains {
		ep.entries = append(ep.entries, &epochstoragetypes.StakeEntry{Address: prov, Vault: vlt, Chain: ch, Stake: coin(math.NewInt(stakes[i])),
			DelegateTotal: coin(D.Mul(math.NewInt(stakes[i])).Quo(total)), StakeAppliedBlock: 10})
	}
	sb := collections.NewSchemaBuilder(collcompat.NewKVStoreService(key))
	k := Keeper{cdc: cdc, storeKey: key, stakingKeeper: verifC23Staking{}, epochstorageKeeper: ep, specKeeper: verifC07Specs{}}
	if !verif_symbolic() {
		// symbolic run: GetParams is a stub; natively the real params subspace holds the same minimum self delegation
		tkey := storetypes.NewTransientStoreKey("transient_dualstaking_params")
		ctx = verifCtx(100, 1700000000, key, tkey)
		k.paramstore = paramtypes.NewSubspace(cdc, codec.NewLegacyAmino(), key, tkey, "dualstaking").WithKeyTable(types.ParamKeyTable())
		k.SetParams(ctx, verifC07GetParams(k, ctx))
	}
	k.delegations = collections.NewIndexedMap(sb, types.DelegationsPrefix, "delegations",
		collections.PairKeyCodec(collections.StringKey, collections.StringKey), collcompat.ProtoValue[types.Delegation](cdc), types.NewDelegationIndexes(sb))
	set := func(delegator string, amount math.Int) {
		if amount.IsPositive() {
			d := types.Delegation{Provider: prov, Delegator: delegator, Amount: coin(amount), Credit: coin(math.ZeroInt()), Timestamp: 1690000000}
			if err := k.delegations.Set(ctx, types.DelegationKey(prov, delegator), d); err != nil {
				panic(err)
			}
		}
	}
	set(vlt, total)
	set(dlg1, D)

	var err error
	op := verif_nondet_range("transaction", 0, 3)
	switch op {
	case 0: // another delegator delegates
		a := math.NewIntFromBigInt(verif_nondet_ubig("delegate.amount", 50))
		verif_assume(a.IsPositive())
		err = k.Delegate(ctx, dlg2, prov, coin(a), false)
		verif_assert("delegation-accepted", err == nil)
	case 1: // the delegator unbonds part or all of its delegation
		a := math.NewIntFromBigInt(verif_nondet_ubig("unbond.amount", 50))
		verif_assume(a.IsPositive() && a.LTE(D))
		err = k.unbond(ctx, dlg1, prov, coin(a), false)
		verif_assert("unbond-accepted", err == nil)
	case 2: // the vault adds to its self delegation through dual staking
		a := math.NewInt([]int64{1, 50, 101}[verif_nondet_range("vaultDelegate.amount", 0, 2)])
		err = k.Delegate(ctx, vlt, prov, coin(a), false)
		verif_assert("vault-delegation-accepted", err == nil)
	case 3: // the vault takes part of its self delegation back
		a := math.NewInt([]int64{1, 50, 190}[verif_nondet_range("vaultUnbond.amount", 0, 2)]) // 190 leaves less than the minimum self delegation
		err = k.unbond(ctx, vlt, prov, coin(a), false)
	}
	if err != nil {
		verif_reach("rejected")
		return
	}
	// the cross-record invariants
	dels, derr := k.GetProviderDelegators(ctx, prov)
	verif_assert("delegations-readable", derr == nil)
	others, vault := math.ZeroInt(), math.ZeroInt()
	for _, d := range dels {
		verif_assert("no-negative-or-empty-delegation-stored", d.Amount.Amount.IsPositive())
		if d.Delegator == vlt {
			vault = vault.Add(d.Amount.Amount)
		} else {
			others = others.Add(d.Amount.Amount)
		}
	}
	verif_assert("recorded-total-delegations-is-the-sum-of-non-vault-delegations", meta.TotalDelegations.Amount.Equal(others))
	self := math.ZeroInt()
	for _, en := range ep.entries {
		self = self.Add(en.Stake.Amount)
	}
	verif_assert("self-stakes-sum-to-the-vaults-delegation", self.Equal(vault))
	for _, en := range ep.entries {
		verif_assert("entry-delegate-total-is-its-stake-share-rounded-down", en.DelegateTotal.Amount.Equal(others.Mul(en.Stake.Amount).Quo(self)))
		if en.Stake.Amount.Add(en.DelegateTotal.Amount).LT(math.NewInt(150)) {
			verif_assert("entry-below-the-spec-minimum-is-frozen", en.IsFrozen())
		}
	}
	if op >= 2 {
		verif_reach("vault")
	}
	verif_reach("end")
}
