package keeper

import (
	"fmt"

	"cosmossdk.io/collections"
	"cosmossdk.io/math"
	"github.com/cometbft/cometbft/libs/log"
	storetypes "github.com/cosmos/cosmos-sdk/store/types"
	sdk "github.com/cosmos/cosmos-sdk/types"
	collcompat "github.com/lavanet/lava/v5/utils/collcompat"
	"github.com/lavanet/lava/v5/x/dualstaking/types"
	epochstoragetypes "github.com/lavanet/lava/v5/x/epochstorage/types"
)

// ---- model environment: bank as a balance table (one denomination), epochstorage metadata, spec without contributors ----

type verifC10Bank struct {
	types.BankKeeper
	bal map[string]math.Int
}

func (b *verifC10Bank) get(name string) math.Int {
	if v, ok := b.bal[name]; ok {
		return v
	}
	return math.ZeroInt()
}

func (b *verifC10Bank) move(from, to string, amt sdk.Coins) error {
	a := amt.AmountOf("ulava")
	if a.IsNegative() || b.get(from).LT(a) {
		return fmt.Errorf("insufficient funds")
	}
	b.bal[from] = b.get(from).Sub(a)
	b.bal[to] = b.get(to).Add(a)
	return nil
}

func (b *verifC10Bank) SendCoinsFromModuleToModule(ctx sdk.Context, from, to string, amt sdk.Coins) error {
	return b.move(from, to, amt)
}

func (b *verifC10Bank) SendCoinsFromModuleToAccount(ctx sdk.Context, from string, to sdk.AccAddress, amt sdk.Coins) error {
	return b.move(from, "acct:"+string(to), amt)
}

type verifC10Epochs struct {
	types.EpochstorageKeeper
	meta epochstoragetypes.ProviderMetadata
}

func (e verifC10Epochs) GetMetadata(ctx sdk.Context, provider string) (epochstoragetypes.ProviderMetadata, error) {
	if provider != e.meta.Provider {
		return epochstoragetypes.ProviderMetadata{}, fmt.Errorf("no metadata")
	}
	return e.meta, nil
}

type verifC10Specs struct{ types.SpecKeeper }

func (verifC10Specs) GetContributorReward(ctx sdk.Context, chainId string) ([]sdk.AccAddress, math.LegacyDec) {
	return nil, math.LegacyZeroDec()
}

func verifC10FromBech32(s string) (sdk.AccAddress, error) {
	if s == "" {
		return nil, fmt.Errorf("empty address")
	}
	return sdk.AccAddress(s), nil
}

func verifC10Logger(k Keeper, ctx sdk.Context) log.Logger { return nil }

// short names in the symbolic run (bech32 is the identity there), real bech32 addresses natively
func verifC10Addr(name string) string {
	if verif_symbolic() {
		return name
	}
	return sdk.AccAddress((name + "____________________")[:20]).String()
}

func verifC10Acct(addr string) string {
	a, err := sdk.AccAddressFromBech32(addr)
	if err != nil {
		panic(err)
	}
	return "acct:" + string(a)
}

// VerifC10DualstakingBacked: the dual-staking module account backs the claimable rewards through a reward and a claim.
// Pre-state: provider prov (vault vlt, commission 0 / 50 / 100) with a self delegation and up to two delegators (delegation
// amounts from small menus, all older than 30 days), claimable rewards already recorded for the first delegator (arbitrary)
// and a module balance that covers them (plus arbitrary slack).  A reward of arbitrary size arrives from a pool that holds
// it; then the first delegator claims.  After each step the module balance is at least the sum of the recorded rewards,
// what is recorded equals what was handed in, and the claim pays exactly what was recorded.
func VerifC10DualstakingBacked() {
	prov, vlt, dlg1, dlg2 := verifC10Addr("prov"), verifC10Addr("vlt"), verifC10Addr("dlg1"), verifC10Addr("dlg2")
	key := storetypes.NewKVStoreKey(types.StoreKey)
	now := int64(1700000000)
	ctx := verifCtx(100, now, key)
	cdc := verifCdc()
	bank := &verifC10Bank{bal: map[string]math.Int{}}
	commission := uint64(50 * verif_nondet_range("commissionPercent/50", 0, 2))
	meta := epochstoragetypes.ProviderMetadata{Provider: prov, Vault: vlt, DelegateCommission: commission, Chains: []string{"LAV1"}}
	sb := collections.NewSchemaBuilder(collcompat.NewKVStoreService(key))
	k := Keeper{cdc: cdc, storeKey: key, bankKeeper: bank, stakingKeeper: verifC23Staking{}, epochstorageKeeper: verifC10Epochs{meta: meta}, specKeeper: verifC10Specs{}}
	k.delegations = collections.NewIndexedMap(sb, types.DelegationsPrefix, "delegations",
		collections.PairKeyCodec(collections.StringKey, collections.StringKey), collcompat.ProtoValue[types.Delegation](cdc), types.NewDelegationIndexes(sb))
	k.rewards = collections.NewMap(sb, types.RewardPrefix, "rewards",
		collections.PairKeyCodec(collections.StringKey, collections.StringKey), collcompat.ProtoValue[types.DelegatorReward](cdc))

	old := now - 40*24*3600
	coin := func(a int64) sdk.Coin { return sdk.NewCoin("ulava", math.NewInt(a)) }
	set := func(delegator string, amount int64) {
		if amount == 0 {
			return
		}
		d := types.Delegation{Provider: prov, Delegator: delegator, Amount: coin(amount), Credit: coin(0), Timestamp: old}
		if err := k.delegations.Set(ctx, types.DelegationKey(prov, delegator), d); err != nil {
			panic(err)
		}
	}
	set(vlt, 100)
	d1 := []int64{0, 50, 300}[verif_nondet_range("delegator1.amount", 0, 2)]
	d2 := []int64{0, 7}[verif_nondet_range("delegator2.amount", 0, 1)]
	set(dlg1, d1)
	set(dlg2, d2)

	owed := math.NewIntFromBigInt(verif_nondet_ubig("alreadyClaimable.dlg1", 60))
	slack := math.NewIntFromBigInt(verif_nondet_ubig("moduleBalanceSlack", 60))
	reward := math.NewIntFromBigInt(verif_nondet_ubig("reward", 60))
	verif_assume(reward.IsPositive())
	if owed.IsPositive() {
		k.SetDelegatorReward(ctx, types.DelegatorReward{Delegator: dlg1, Provider: prov, Amount: sdk.NewCoins(sdk.NewCoin("ulava", owed))})
	}
	bank.bal[types.ModuleName] = owed.Add(slack)
	bank.bal["pool"] = reward

	sum := func() math.Int {
		total := math.ZeroInt()
		for _, r := range k.GetAllDelegatorReward(ctx) {
			total = total.Add(r.Amount.AmountOf("ulava"))
		}
		return total
	}
	verif_assert("precondition-backed", bank.get(types.ModuleName).GTE(sum()))

	got, err := k.RewardProvidersAndDelegators(ctx, prov, "LAV1", sdk.NewCoins(sdk.NewCoin("ulava", reward)), "pool", false, false, false)
	verif_assert("reward-accepted", err == nil)
	verif_assert("module-balance-backs-claimable-rewards-after-a-reward", bank.get(types.ModuleName).GTE(sum()))
	verif_assert("everything-handed-in-is-recorded-as-claimable", sum().Equal(owed.Add(reward)) && bank.get("pool").IsZero() && bank.get(types.ModuleName).Equal(owed.Add(slack).Add(reward)))
	vaultReward, _ := k.GetDelegatorReward(ctx, prov, vlt)
	verif_assert("provider-reward-reported-is-what-the-vault-can-claim", vaultReward.Amount.AmountOf("ulava").Equal(got.AmountOf("ulava")))
	if d1 == 0 && d2 == 0 {
		verif_assert("provider-without-delegators-gets-everything", got.AmountOf("ulava").Equal(reward))
	}

	rec, _ := k.GetDelegatorReward(ctx, prov, dlg1)
	before := bank.get(types.ModuleName)
	claimed, cerr := k.ClaimRewards(ctx, dlg1, prov)
	verif_assert("claim-succeeds", cerr == nil)
	verif_assert("claim-pays-exactly-what-was-recorded", claimed.AmountOf("ulava").Equal(rec.Amount.AmountOf("ulava")) && bank.get(verifC10Acct(dlg1)).Equal(rec.Amount.AmountOf("ulava")) &&
		bank.get(types.ModuleName).Equal(before.Sub(rec.Amount.AmountOf("ulava"))))
	_, still := k.GetDelegatorReward(ctx, prov, dlg1)
	verif_assert("claimed-reward-is-removed", !still)
	verif_assert("module-balance-backs-claimable-rewards-after-a-claim", bank.get(types.ModuleName).GTE(sum()))
	again, _ := k.ClaimRewards(ctx, dlg1, prov)
	verif_assert("nothing-is-paid-twice", again.IsZero() && bank.get(verifC10Acct(dlg1)).Equal(rec.Amount.AmountOf("ulava")))
	if d1 > 0 {
		verif_reach("delegators")
	}
	verif_reach("end")
}
