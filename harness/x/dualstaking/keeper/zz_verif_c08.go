package keeper

import (
	"math/big"

	"cosmossdk.io/math"
	sdk "github.com/cosmos/cosmos-sdk/types"
	"github.com/lavanet/lava/v5/x/dualstaking/types"
)

func verifC08Coin(b *big.Int) sdk.Coin { return sdk.Coin{Denom: "ulava", Amount: math.NewIntFromBigInt(b)} }

// VerifC08Split: one reward (single denom) split between a provider with self delegation, and its delegators.
func VerifC08Split() {
	k := Keeper{}
	bits := verif_param("bits", 64)
	reward := verif_nondet_ubig("reward", bits)
	self := verif_nondet_ubig("selfDelegation", bits)
	others := verif_nondet_ubig("totalDelegations", bits)
	commission := verif_nondet_u64("commission")
	verif_assume(commission <= 100 && reward.Sign() > 0)
	// a staked provider always holds a positive self delegation (RewardProvidersAndDelegators passes the vault's
	// delegation; sdk.Coins.MulInt panics on a zero multiplier, so a zero self delegation is a precondition violation)
	verif_assume(self.Sign() > 0)
	total := sdk.NewCoins(verifC08Coin(reward))
	selfD := types.Delegation{Provider: "p", Delegator: "p", Amount: verifC08Coin(self)}

	prov, deleg := k.CalcRewards(sdk.Context{}, total, math.NewIntFromBigInt(others), selfD, commission)

	p := prov.AmountOf("ulava").BigInt()
	d := deleg.AmountOf("ulava").BigInt()
	sum := new(big.Int).Add(p, d)
	verif_assert("parts-non-negative", p.Sign() >= 0 && d.Sign() >= 0)
	verif_assert("parts-add-up-to-reward", sum.Cmp(reward) == 0)
	if commission == 100 {
		verif_assert("full-commission-gives-provider-everything", p.Cmp(reward) == 0)
		verif_reach("full-commission")
	}
	if commission == 0 || others.Sign() == 0 {
		// provider part = floor(reward*self/(self+others))
		den := new(big.Int).Add(self, others)
		lhs := new(big.Int).Mul(p, den)
		num := new(big.Int).Mul(reward, self)
		up := new(big.Int).Add(lhs, den)
		verif_assert("provider-part-is-its-stake-share-rounded-down", lhs.Cmp(num) <= 0 && num.Cmp(up) < 0)
		verif_reach("no-commission")
	}
	if others.Sign() == 0 {
		verif_assert("no-delegators-provider-gets-all", p.Cmp(reward) == 0)
	}
	verif_reach("end")
}

// VerifC08Delegators: the delegators' pool split between two delegators by delegation amount, rounded down, never
// more than the pool.
func VerifC08Delegators() {
	k := Keeper{}
	bits := verif_param("bits", 64)
	pool := verif_nondet_ubig("delegatorsReward", bits)
	a1 := verif_nondet_ubig("delegation[0]", bits)
	a2 := verif_nondet_ubig("delegation[1]", bits)
	// updateDelegatorsReward only passes delegations whose monthly credit is positive
	verif_assume(pool.Sign() > 0 && a1.Sign() > 0 && a2.Sign() > 0)
	totalD := new(big.Int).Add(a1, a2)
	coins := sdk.NewCoins(verifC08Coin(pool))
	r1 := k.CalcDelegatorReward(sdk.Context{}, coins, math.NewIntFromBigInt(totalD), types.Delegation{Amount: verifC08Coin(a1)}).AmountOf("ulava").BigInt()
	r2 := k.CalcDelegatorReward(sdk.Context{}, coins, math.NewIntFromBigInt(totalD), types.Delegation{Amount: verifC08Coin(a2)}).AmountOf("ulava").BigInt()
	verif_assert("delegator-parts-non-negative", r1.Sign() >= 0 && r2.Sign() >= 0)
	verif_assert("delegator-parts-within-pool", new(big.Int).Add(r1, r2).Cmp(pool) <= 0)
	if totalD.Sign() > 0 {
		lhs := new(big.Int).Mul(r1, totalD)
		num := new(big.Int).Mul(pool, a1)
		up := new(big.Int).Add(lhs, totalD)
		verif_assert("delegator-part-is-pool-times-share-rounded-down", lhs.Cmp(num) <= 0 && num.Cmp(up) < 0)
		verif_reach("split")
	}
}
