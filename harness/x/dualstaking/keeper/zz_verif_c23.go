package keeper

import (
	"math/big"
	"time"

	"cosmossdk.io/math"
	tmproto "github.com/cometbft/cometbft/proto/tendermint/types"
	sdk "github.com/cosmos/cosmos-sdk/types"
	"github.com/lavanet/lava/v5/x/dualstaking/types"
)

type verifC23Staking struct{ types.StakingKeeper }

func (verifC23Staking) BondDenom(ctx sdk.Context) string { return "ulava" }

func verifC23Ctx(now int64) sdk.Context {
	return sdk.Context{}.WithBlockHeader(tmproto.Header{Height: 100, Time: time.Unix(now, 0).UTC()})
}

func verifC23Coin(b *big.Int) sdk.Coin { return sdk.Coin{Denom: "ulava", Amount: math.NewIntFromBigInt(b)} }

const verifC23Month = 30 * 86400

// One stored delegation (amount, credit, timestamps as SetDelegation leaves them), evaluated at an arbitrary later time.
func VerifC23MonthlyCredit() { verifC23MonthlyCredit(100) }

// the same with amounts below 2^12: the nonlinear queries are then within reach of the solver's bit-level
// reasoning, so a wrong normalisation is found as a concrete counterexample rather than left unknown
func VerifC23MonthlyCreditSmall() { verifC23MonthlyCredit(verif_param("bits", 12)) }

// the same from a stored entry whose credit timestamp may also lie after its delegation timestamp (a state
// SetDelegation produces when it re-stamps an imported entry: InitGenesis keeps Credit/CreditTimestamp and overwrites
// Timestamp with the block time); the bounds must hold there as well
func VerifC23MonthlyCreditAnyOrder() { verifC23MonthlyCreditOrd(verif_param("bits", 12), false) }

func verifC23MonthlyCredit(bits int) { verifC23MonthlyCreditOrd(bits, true) }

func verifC23MonthlyCreditOrd(bits int, ordered bool) {
	k := Keeper{stakingKeeper: verifC23Staking{}}
	now := verif_nondet_in("now", 2, 1<<40)
	ts := verif_nondet_in("delegation.Timestamp", 0, 1<<40)
	cts := verif_nondet_in("delegation.CreditTimestamp", 0, 1<<40)
	amount := verif_nondet_ubig("amount", bits)
	credit := verif_nondet_ubig("credit", bits)
	if ordered {
		verif_assume(cts <= ts && ts <= now)
	} else {
		verif_assume(cts <= now && ts <= now)
	}
	d := types.Delegation{Provider: "p", Delegator: "d", Amount: verifC23Coin(amount), Credit: verifC23Coin(credit), Timestamp: ts, CreditTimestamp: cts}
	ctx := verifC23Ctx(now)

	mc := k.CalculateMonthlyCredit(ctx, d)

	max := amount
	if credit.Cmp(amount) > 0 {
		max = credit
	}
	verif_assert("monthly-credit-non-negative", !mc.Amount.IsNegative())
	verif_assert("monthly-credit-at-most-max-amount-held", mc.Amount.BigInt().Cmp(max) <= 0)
	if now-ts >= verifC23Month+3600 {
		verif_assert("unchanged-for-30-days-gives-full-amount", mc.Amount.BigInt().Cmp(amount) == 0)
		verif_reach("full-month")
	}
	if amount.Sign() == 0 && (credit.Sign() == 0 || cts == 0) {
		verif_assert("nothing-held-gives-zero", mc.Amount.IsZero())
	}
	if amount.IsInt64() && credit.IsInt64() {
		verif_observe("mc", mc.Amount.Int64())
	}
	verif_reach("end")
}

// Credit does not decrease as time passes with nothing changed.
func VerifC23Monotone() {
	k := Keeper{stakingKeeper: verifC23Staking{}}
	now := verif_nondet_in("now", 2, 1<<40)
	later := verif_nondet_in("later", 2, 1<<40)
	ts := verif_nondet_in("delegation.Timestamp", 0, 1<<40)
	amount := verif_nondet_ubig("amount", verif_param("amount_bits", 16))
	verif_assume(now <= later && ts <= now)
	// a delegation whose credit was never set (first delegation), the shape Delegate() creates
	d := types.Delegation{Provider: "p", Delegator: "d", Amount: verifC23Coin(amount), Credit: verifC23Coin(big.NewInt(0)), Timestamp: ts, CreditTimestamp: 0}
	c1 := k.CalculateMonthlyCredit(verifC23Ctx(now), d)
	c2 := k.CalculateMonthlyCredit(verifC23Ctx(later), d)
	verif_assert("credit-monotone-in-time", c2.Amount.GTE(c1.Amount))
	verif_reach("end")
}

// Two-step history through the stored-credit update: hold a1 from t0, change to a2 at t1 (credit update as in SetDelegation), evaluate at t2.
func VerifC23TwoStep() {
	k := Keeper{stakingKeeper: verifC23Staking{}}
	t0 := verif_nondet_in("t0", 2, 1<<40)
	t1 := verif_nondet_in("t1", 2, 1<<40)
	t2 := verif_nondet_in("t2", 2, 1<<40)
	a1 := verif_nondet_ubig("a1", 64)
	a2 := verif_nondet_ubig("a2", 64)
	verif_assume(t0 <= t1 && t1 <= t2)
	existing := types.Delegation{Provider: "p", Delegator: "d", Amount: verifC23Coin(a1), Credit: verifC23Coin(big.NewInt(0)), Timestamp: t0, CreditTimestamp: 0}
	// what SetDelegation does for an existing delegation
	credit, creditTs := k.CalculateCredit(verifC23Ctx(t1), existing)
	updated := types.Delegation{Provider: "p", Delegator: "d", Amount: verifC23Coin(a2), Credit: credit, Timestamp: t1, CreditTimestamp: creditTs}
	verif_assert("stored-credit-at-most-previous-amount", credit.Amount.BigInt().Cmp(a1) <= 0 && !credit.Amount.IsNegative())
	verif_assert("stored-credit-timestamp-not-after-change", creditTs <= t1)
	mc := k.CalculateMonthlyCredit(verifC23Ctx(t2), updated)
	max := a1
	if a2.Cmp(a1) > 0 {
		max = a2
	}
	verif_assert("two-step-credit-non-negative", !mc.Amount.IsNegative())
	verif_assert("two-step-credit-at-most-max-amount-held", mc.Amount.BigInt().Cmp(max) <= 0)
	if t2-t1 >= verifC23Month+3600 {
		verif_assert("two-step-unchanged-30-days-full-amount", mc.Amount.BigInt().Cmp(a2) == 0)
	}
	verif_reach("end")
}
