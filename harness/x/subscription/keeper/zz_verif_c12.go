package keeper

import (
	"fmt"
	"time"

	"cosmossdk.io/math"
	"github.com/cometbft/cometbft/libs/log"
	storetypes "github.com/cosmos/cosmos-sdk/store/types"
	sdk "github.com/cosmos/cosmos-sdk/types"
	fixationtypes "github.com/lavanet/lava/v5/x/fixationstore/types"
	planstypes "github.com/lavanet/lava/v5/x/plans/types"
	"github.com/lavanet/lava/v5/x/subscription/types"
	timerstoretypes "github.com/lavanet/lava/v5/x/timerstore/types"
)

// ---- model environment of the subscription keeper ----

const (
	verifC12EpochBlocks = 10
	verifC12Price       = 100
	verifC12PlanCu      = 1000
)

type verifC12Bank struct {
	types.BankKeeper
	bal map[string]math.Int
}

func (b *verifC12Bank) get(name string) math.Int {
	if v, ok := b.bal[name]; ok {
		return v
	}
	return math.ZeroInt()
}

func (b *verifC12Bank) GetBalance(ctx sdk.Context, addr sdk.AccAddress, denom string) sdk.Coin {
	return sdk.NewCoin(denom, b.get("acct:"+string(addr)))
}

func (b *verifC12Bank) SendCoinsFromAccountToModule(ctx sdk.Context, from sdk.AccAddress, to string, amt sdk.Coins) error {
	a := amt.AmountOf("ulava")
	if b.get("acct:" + string(from)).LT(a) {
		return fmt.Errorf("insufficient funds")
	}
	b.bal["acct:"+string(from)] = b.get("acct:" + string(from)).Sub(a)
	b.bal[to] = b.get(to).Add(a)
	return nil
}

type verifC12Epochs struct{ types.EpochstorageKeeper }

func (verifC12Epochs) GetNextEpoch(ctx sdk.Context, block uint64) (uint64, error) {
	return block - block%verifC12EpochBlocks + verifC12EpochBlocks, nil
}

func (e verifC12Epochs) GetCurrentNextEpoch(ctx sdk.Context) uint64 {
	n, _ := e.GetNextEpoch(ctx, uint64(ctx.BlockHeight()))
	return n
}
func (verifC12Epochs) BlocksToSave(ctx sdk.Context, block uint64) (uint64, error) { return 40, nil }

type verifC12Projects struct {
	types.ProjectsKeeper
	live      map[string]bool // subscription -> has its admin project
	snapshots int
	deleted   int
}

func (p *verifC12Projects) CreateAdminProject(ctx sdk.Context, sub string, plan planstypes.Plan) error {
	if p.live[sub] {
		return fmt.Errorf("project exists")
	}
	p.live[sub] = true
	return nil
}

func (p *verifC12Projects) GetAllProjectsForSubscription(ctx sdk.Context, sub string) []string {
	if p.live[sub] {
		return []string{sub + "-admin"}
	}
	return nil
}

func (p *verifC12Projects) DeleteProject(ctx sdk.Context, creator, index string) error {
	if !p.live[creator] {
		return fmt.Errorf("no such project")
	}
	p.live[creator] = false
	p.deleted++
	return nil
}

func (p *verifC12Projects) SnapshotSubscriptionProjects(ctx sdk.Context, sub string, block uint64) {
	p.snapshots++
}

type verifC12Plans struct {
	types.PlansKeeper
	refs int
}

func verifC12Plan() planstypes.Plan {
	return planstypes.Plan{Index: "plan", Block: 50, Price: sdk.NewCoin("ulava", math.NewInt(verifC12Price)), AnnualDiscountPercentage: 20,
		PlanPolicy: planstypes.Policy{TotalCuLimit: verifC12PlanCu, EpochCuLimit: 100, MaxProvidersToPair: 2}}
}

const (
	verifC12GoldPrice = 250
	verifC12GoldCu    = 5000
)

func verifC12Gold() planstypes.Plan {
	return planstypes.Plan{Index: "gold", Block: 60, Price: sdk.NewCoin("ulava", math.NewInt(verifC12GoldPrice)), AnnualDiscountPercentage: 20,
		PlanPolicy: planstypes.Policy{TotalCuLimit: verifC12GoldCu, EpochCuLimit: 100, MaxProvidersToPair: 2}}
}

func (p *verifC12Plans) GetPlan(ctx sdk.Context, index string) (planstypes.Plan, bool) {
	switch index {
	case "plan":
		p.refs++
		return verifC12Plan(), true
	case "gold":
		p.refs++
		return verifC12Gold(), true
	}
	return planstypes.Plan{}, false
}

func (p *verifC12Plans) FindPlan(ctx sdk.Context, index string, block uint64) (planstypes.Plan, bool) {
	if index == "gold" {
		return verifC12Gold(), block == 60
	}
	return verifC12Plan(), index == "plan" && block == 50
}
func (p *verifC12Plans) PutPlan(ctx sdk.Context, index string, block uint64) { p.refs-- }

type verifC12Staking struct{ types.StakingKeeper }

func (verifC12Staking) BondDenom(ctx sdk.Context) string { return "ulava" }

func verifC12FromBech32(s string) (sdk.AccAddress, error) {
	if s == "" {
		return nil, fmt.Errorf("empty address")
	}
	return sdk.AccAddress(s), nil
}
func verifC12Logger(k Keeper, ctx sdk.Context) log.Logger { return nil }

// symbolic run: a month is 30 days (calendar arithmetic of utils.NextMonth is outside the claim); natively the real one
func verifC12NextMonth(date time.Time) time.Time { return date.Add(30 * 24 * time.Hour) }

func verifC12Addr(name string) string {
	if verif_symbolic() {
		return name
	}
	return sdk.AccAddress((name + "____________________")[:20]).String()
}

type verifC12World struct {
	k        *Keeper
	ctx      sdk.Context
	bank     *verifC12Bank
	projects *verifC12Projects
	plans    *verifC12Plans
	height   int64
	now      int64
	consumer string
	acct     string
	fsTS     *timerstoretypes.TimerStore
}

func verifC12NewWorld(balance math.Int) *verifC12World {
	key := storetypes.NewKVStoreKey(types.StoreKey)
	w := &verifC12World{height: 105, now: 1700000000}
	w.ctx = verifCtx(w.height, w.now, key)
	cdc := verifCdc()
	w.bank = &verifC12Bank{bal: map[string]math.Int{}}
	w.projects = &verifC12Projects{live: map[string]bool{}}
	w.plans = &verifC12Plans{}
	k := &Keeper{cdc: cdc, storeKey: key, bankKeeper: w.bank, epochstorageKeeper: verifC12Epochs{}, projectsKeeper: w.projects, plansKeeper: w.plans, stakingKeeper: verifC12Staking{}}
	stale := func(sdk.Context) uint64 { return 40 }
	fsTS := timerstoretypes.NewTimerStore(key, cdc, types.SubsFixationPrefix)
	k.subsFS = *fixationtypes.NewFixationStore(key, cdc, types.SubsFixationPrefix, fsTS, stale)
	subsTS := timerstoretypes.NewTimerStore(key, cdc, types.SubsTimerPrefix)
	k.subsTS = *subsTS.WithCallbackByBlockTime(func(ctx sdk.Context, subkey, _ []byte) { k.advanceMonth(ctx, subkey) })
	cuFsTS := timerstoretypes.NewTimerStore(key, cdc, types.CuTrackerFixationPrefix)
	k.cuTrackerFS = *fixationtypes.NewFixationStore(key, cdc, types.CuTrackerFixationPrefix, cuFsTS, stale)
	k.cuTrackerTS = *timerstoretypes.NewTimerStore(key, cdc, types.CuTrackerTimerPrefix).WithCallbackByBlockHeight(func(sdk.Context, []byte, []byte) {})
	w.k = k
	w.fsTS = fsTS
	w.consumer = verifC12Addr("consumer")
	a, _ := sdk.AccAddressFromBech32(w.consumer)
	w.acct = "acct:" + string(a)
	w.bank.bal[w.acct] = balance
	return w
}

// the month boundary: time passes the subscription's monthly expiry; the begin-block tick fires its timer
func (w *verifC12World) monthBoundary(expiry uint64) {
	w.height += 7
	w.now = int64(expiry) + 5
	w.ctx = w.ctx.WithBlockHeight(w.height).WithBlockTime(time.Unix(w.now, 0).UTC())
	w.fsTS.Tick(w.ctx)
	w.k.subsTS.Tick(w.ctx)
}

// a block at the start of the next epoch: what the expiry appended / scheduled for the next epoch is in effect
func (w *verifC12World) nextEpoch() {
	w.height = w.height - w.height%verifC12EpochBlocks + verifC12EpochBlocks
	w.now += 60
	w.ctx = w.ctx.WithBlockHeight(w.height).WithBlockTime(time.Unix(w.now, 0).UTC())
	w.fsTS.Tick(w.ctx)
	w.k.subsTS.Tick(w.ctx)
}

// VerifC12Lifetime: a consumer buys the plan for 1..3 months, may extend it by 1 or 2 months in any later month or upgrade
// it to the dearer gold plan for 1 or 2 months (in the block of the buy or in any later month), and uses an arbitrary
// amount of CU every month.  The subscription stays active through exactly as many monthly expiries as
// months were bought and then disappears together with its project; while active its remaining
// monthly CU is within [0, monthly total] and is reset to the plan total at each month boundary; the consumer is charged
// exactly price x months for every purchase.
func VerifC12Lifetime() {
	balance := math.NewIntFromBigInt(verif_nondet_ubig("consumerBalance", 40))
	w := verifC12NewWorld(balance)
	k := w.k
	months := uint64(verif_nondet_range("buy.months", 1, 3))
	verif_assume(balance.GTE(math.NewInt(verifC12Price * 12)))
	err := k.CreateSubscription(w.ctx, w.consumer, w.consumer, "plan", months, false)
	verif_assert("purchase-accepted", err == nil)
	paid := math.NewInt(verifC12Price * int64(months))
	verif_assert("charged-price-times-months", w.bank.get(w.acct).Equal(balance.Sub(paid)) && w.bank.get(types.ModuleName).Equal(paid))
	bought := months
	maxMonths := verif_param("max_months", 4)
	extended, upgraded := false, false
	planCu := uint64(verifC12PlanCu)
	// an upgrade to the gold plan replaces the remaining months with the newly bought ones, from the upgrade on
	upgrade := func(monthsPassed uint64) {
		u := uint64(verif_nondet_range("upgrade.months", 1, 2))
		before := w.bank.get(w.acct)
		uerr := k.CreateSubscription(w.ctx, w.consumer, w.consumer, "gold", u, false)
		verif_assert("upgrade-accepted", uerr == nil)
		verif_assert("upgrade-charged-new-price-times-months", w.bank.get(w.acct).Equal(before.Sub(math.NewInt(verifC12GoldPrice*int64(u)))))
		paid = paid.Add(math.NewInt(verifC12GoldPrice * int64(u)))
		bought = monthsPassed + u
		planCu = verifC12GoldCu
		extended, upgraded = true, true
	}
	if verif_param("upgrades", 1) == 1 && verif_nondet_bool("upgradeInTheBlockOfTheBuy") {
		upgrade(0)
	}
	for m := 1; m <= maxMonths+1; m++ {
		w.nextEpoch()
		sub, found := k.GetSubscription(w.ctx, w.consumer)
		if uint64(m) > bought {
			verif_assert("gone-after-the-months-bought", !found)
			verif_assert("project-removed-with-the-subscription", !w.projects.live[w.consumer])
			// (every purchase takes a plan reference and the expiry returns one: with an extension one stays behind.  The
			// property does not speak of plan references - noted in DESIGN.md, not asserted.)
			verif_assert("at-least-one-plan-reference-returned", w.plans.refs < 1+map[bool]int{false: 0, true: 1}[extended])
			verif_reach("expired")
			break
		}
		verif_assert("active-while-months-remain", found)
		if !found {
			return
		}
		verif_assert("monthly-cu-reset-to-the-plan-total", sub.MonthCuLeft == planCu && sub.MonthCuTotal == planCu)
		verif_assert("months-left-as-bought", sub.DurationLeft == bought-uint64(m)+1)
		// an upgrade in this month (instead of an extension): in effect from the next epoch, and the month restarts there
		if !extended && verif_param("upgrades", 1) == 1 && verif_nondet_bool("upgradeThisMonth") {
			upgrade(uint64(m - 1))
			w.nextEpoch()
			sub, found = k.GetSubscription(w.ctx, w.consumer)
			verif_assert("upgraded-subscription-in-effect-at-the-next-epoch", found && sub.PlanIndex == "gold" && sub.MonthCuLeft == planCu && sub.MonthCuTotal == planCu && sub.DurationLeft == bought-uint64(m)+1)
			if !found {
				return
			}
		}
		// an extension in this month (at most once per history, so that the history ends within the explored months)
		if !extended && bought < uint64(maxMonths) {
			if ext := uint64(verif_nondet_range("extend.months", 0, 2)); ext > 0 && bought+ext <= uint64(maxMonths) {
				before := w.bank.get(w.acct)
				eerr := k.CreateSubscription(w.ctx, w.consumer, w.consumer, "plan", ext, false)
				verif_assert("extension-accepted", eerr == nil)
				verif_assert("extension-charged-price-times-months", w.bank.get(w.acct).Equal(before.Sub(math.NewInt(verifC12Price*int64(ext)))))
				bought += ext
				paid = paid.Add(math.NewInt(verifC12Price * int64(ext)))
				extended = true
			}
		}
		// this month's usage
		cu := verif_nondet_u64("month.usedCu")
		after, cerr := k.ChargeComputeUnitsToSubscription(w.ctx, w.consumer, uint64(w.height), cu)
		verif_assert("usage-charged", cerr == nil)
		want := uint64(0)
		if cu < planCu {
			want = planCu - cu
		}
		verif_assert("remaining-cu-never-negative-never-above-total", after.MonthCuLeft == want && after.MonthCuLeft <= after.MonthCuTotal)
		sub, _ = k.GetSubscription(w.ctx, w.consumer)
		verif_assert("remaining-cu-stored", sub.MonthCuLeft == want)
		w.monthBoundary(sub.MonthExpiryTime)
	}
	verif_assert("total-charged-is-price-times-all-months-bought", w.bank.get(types.ModuleName).Equal(paid))
	if extended && !upgraded {
		verif_reach("extended")
	}
	if upgraded {
		verif_reach("upgraded")
	}
	verif_reach("end")
}

// VerifC12YearlyPrice: the price of a purchase of 1..12 months: price x months, with the plan's annual discount (20%)
// from 12 months on; a creator who cannot afford it is not charged and gets no subscription.
func VerifC12YearlyPrice() {
	balance := math.NewIntFromBigInt(verif_nondet_ubig("consumerBalance", 40))
	w := verifC12NewWorld(balance)
	months := uint64(verif_nondet_in("buy.months", 1, 12)) // MAX_SUBSCRIPTION_DURATION
	err := w.k.CreateSubscription(w.ctx, w.consumer, w.consumer, "plan", months, false)
	price := math.NewInt(verifC12Price).MulRaw(int64(months))
	if months >= 12 {
		price = price.MulRaw(80).QuoRaw(100)
	}
	if balance.GTE(price) {
		verif_assert("affordable-purchase-accepted", err == nil)
		verif_assert("charged-price-times-months-after-annual-discount", w.bank.get(w.acct).Equal(balance.Sub(price)) && w.bank.get(types.ModuleName).Equal(price))
		sub, found := w.k.GetSubscription(w.ctx, w.consumer)
		verif_assert("subscription-holds-the-months-bought-and-the-credit", found && sub.DurationLeft == months && sub.DurationBought == months && sub.Credit.Amount.Equal(price))
		verif_reach("bought")
	} else {
		verif_assert("unaffordable-purchase-rejected-and-not-charged", err != nil && w.bank.get(w.acct).Equal(balance) && w.bank.get(types.ModuleName).IsZero())
		verif_reach("rejected")
	}
}
