package keeper

import (
	"math/big"

	"cosmossdk.io/math"
	sdk "github.com/cosmos/cosmos-sdk/types"
)

// VerifC11Shares: the monthly credit (already capped) split between the providers with tracked CU, as
// RewardAndResetCuTracker does it: one CalcTotalMonthlyReward call per tracked entry against the total tracked CU.
func VerifC11Shares() {
	k := Keeper{}
	bits := verif_param("credit_bits", 24)
	cubits := verif_param("cu_bits", 12)
	credit := verif_nondet_ubig("credit", bits)
	cu1 := verif_nondet_u64("trackedCu[0]")
	cu2 := verif_nondet_u64("trackedCu[1]")
	cu3 := verif_nondet_u64("trackedCu[2]")
	lim := uint64(1) << uint(cubits)
	verif_assume(cu1 < lim && cu2 < lim && cu3 < lim)
	total := cu1 + cu2 + cu3
	T := math.NewIntFromBigInt(credit)

	r1 := k.CalcTotalMonthlyReward(sdk.Context{}, T, cu1, total)
	r2 := k.CalcTotalMonthlyReward(sdk.Context{}, T, cu2, total)
	r3 := k.CalcTotalMonthlyReward(sdk.Context{}, T, cu3, total)

	verif_assert("shares-non-negative", !r1.IsNegative() && !r2.IsNegative() && !r3.IsNegative())
	verif_assert("shares-together-at-most-credit", r1.Add(r2).Add(r3).LTE(T))
	if total > 0 {
		// r1 = floor(T*cu1/total)
		lhs := new(big.Int).Mul(r1.BigInt(), new(big.Int).SetUint64(total))
		num := new(big.Int).Mul(credit, new(big.Int).SetUint64(cu1))
		upper := new(big.Int).Add(lhs, new(big.Int).SetUint64(total))
		verif_assert("share-is-credit-times-cu-over-total-rounded-down", lhs.Cmp(num) <= 0 && num.Cmp(upper) < 0)
		verif_reach("paid")
	} else {
		verif_assert("no-tracked-cu-pays-nothing", r1.IsZero() && r2.IsZero() && r3.IsZero())
		verif_reach("nothing-tracked")
	}
	if cu1 == 0 {
		verif_assert("no-cu-no-share", r1.IsZero())
	}
}

// VerifC11SharesWide: the same split with tracked CU anywhere in uint64 (two entries whose sum does not wrap, so
// totals above 2^63 are included) and a small credit, to cover sign/width slips in the CU conversions.
func VerifC11SharesWide() {
	k := Keeper{}
	credit := verif_nondet_ubig("credit", verif_param("wide_credit_bits", 12))
	cu1 := verif_nondet_u64("trackedCu[0]")
	cu2 := verif_nondet_u64("trackedCu[1]")
	total := cu1 + cu2
	verif_assume(total >= cu1) // RewardAndResetCuTracker's uint64 sum did not wrap
	verif_assume(total >= 1<<62)
	T := math.NewIntFromBigInt(credit)

	r1 := k.CalcTotalMonthlyReward(sdk.Context{}, T, cu1, total)
	r2 := k.CalcTotalMonthlyReward(sdk.Context{}, T, cu2, total)

	verif_assert("wide-shares-non-negative", !r1.IsNegative() && !r2.IsNegative())
	verif_assert("wide-shares-together-at-most-credit", r1.Add(r2).LTE(T))
	lhs := new(big.Int).Mul(r1.BigInt(), new(big.Int).SetUint64(total))
	num := new(big.Int).Mul(credit, new(big.Int).SetUint64(cu1))
	upper := new(big.Int).Add(lhs, new(big.Int).SetUint64(total))
	verif_assert("wide-share-is-credit-times-cu-over-total-rounded-down", lhs.Cmp(num) <= 0 && num.Cmp(upper) < 0)
	verif_reach("paid")
}
