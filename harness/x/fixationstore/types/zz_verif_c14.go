package types

import (
	"math"

	sdkmath "cosmossdk.io/math"
	storetypes "github.com/cosmos/cosmos-sdk/store/types"
	sdk "github.com/cosmos/cosmos-sdk/types"
	timerstoretypes "github.com/lavanet/lava/v5/x/timerstore/types"
)

// ---- reference model: versions are never discarded; visibility is computed from first principles ----

const (
	verifC14Stale  = 4  // stale period in blocks
	verifC14Decade = 10 // future versions / deletions are scheduled for the next multiple of 10
	verifC14Index  = "entry"
)

type verifC14Version struct {
	block    uint64
	val      int64
	ext      int    // references taken with GetEntry and not yet returned
	latest   bool   // holds the reference of being the latest version
	future   bool   // appended for a future block, not yet in effect
	trimmed  bool   // a future version discarded by a deletion
	deleteAt uint64 // MaxUint64: none
	zeroAt   uint64 // block at which the last reference went away (MaxUint64: still referenced)
}

type verifC14Model struct {
	vs   []*verifC14Version // ascending by block
	held []*verifC14Version // references taken by GetEntry, oldest first
}

func (m *verifC14Model) stale(v *verifC14Version, now uint64) bool {
	return v.zeroAt != math.MaxUint64 && now >= v.zeroAt+verifC14Stale
}

func (m *verifC14Model) maybeZero(v *verifC14Version, now uint64) {
	if !v.latest && !v.future && v.ext == 0 && v.zeroAt == math.MaxUint64 {
		v.zeroAt = now
	}
}

func (m *verifC14Model) nearest(b uint64) *verifC14Version {
	var out *verifC14Version
	for _, v := range m.vs {
		if !v.trimmed && v.block <= b {
			out = v
		}
	}
	return out
}

// the version a lookup for block b resolves to at block height now (nil: not found)
func (m *verifC14Model) find(b, now uint64) *verifC14Version {
	v := m.nearest(b)
	if v == nil || v.deleteAt <= b || m.stale(v, now) {
		return nil
	}
	return v
}

func (m *verifC14Model) insert(v *verifC14Version) {
	out := []*verifC14Version{}
	done := false
	for _, o := range m.vs {
		if !done && o.block > v.block {
			out = append(out, v)
			done = true
		}
		out = append(out, o)
	}
	if !done {
		out = append(out, v)
	}
	m.vs = out
}

func (m *verifC14Model) trimFrom(b uint64) {
	for _, v := range m.vs {
		if v.future && !v.trimmed && v.block >= b {
			v.trimmed = true
		}
	}
}

// append at block b (== now, or the next decade); returns whether the store must accept it
func (m *verifC14Model) append(b, now uint64, val int64) bool {
	n := m.nearest(b)
	fresh := n == nil || n.deleteAt <= now || (m.stale(n, now) && !(n.deleteAt <= b))
	nv := &verifC14Version{block: b, val: val, deleteAt: math.MaxUint64, zeroAt: math.MaxUint64}
	if !fresh {
		if n.block == b {
			n.val = val // same block: the data is overwritten
			return true
		}
		if n.deleteAt <= b {
			return false // on or beyond a pending delete
		}
		if n.deleteAt != math.MaxUint64 {
			nv.deleteAt, n.deleteAt = n.deleteAt, math.MaxUint64 // the pending delete moves to the newer version
		}
	}
	if b <= now {
		nv.latest = true
		if !fresh && n.latest {
			n.latest = false
			m.maybeZero(n, now)
		}
	} else {
		nv.future = true
	}
	m.insert(nv)
	return true
}

func (m *verifC14Model) del(b, now uint64) bool {
	at := b
	if b > now {
		at--
	}
	n := m.nearest(at)
	// a version that is stale, or that belongs to an incarnation already deleted, is not something to delete
	if n != nil && (m.stale(n, now) || n.deleteAt <= now) {
		n = nil
	}
	if n == nil {
		f := m.nearest(b)
		if f != nil && (m.stale(f, now) || f.deleteAt <= now) {
			f = nil
		}
		if f != nil {
			m.trimFrom(b) // a first, not yet matured future version: discarded with everything after it
			return true
		}
		return false
	}
	if n.deleteAt != math.MaxUint64 {
		return false
	}
	n.deleteAt = b
	if b == now {
		n.latest = false
		m.maybeZero(n, now)
	}
	m.trimFrom(b)
	return true
}

// block begin at height now: future versions take effect, scheduled deletions happen
func (m *verifC14Model) tick(now uint64) {
	for _, v := range m.vs {
		if v.future && !v.trimmed && v.block == now {
			for _, o := range m.vs {
				if o != v && o.latest && o.block < now {
					o.latest = false
					m.maybeZero(o, now)
				}
			}
			v.future, v.latest = false, true
		}
	}
	for _, v := range m.vs {
		if !v.trimmed && v.deleteAt == now && v.latest {
			v.latest = false
			m.maybeZero(v, now)
		}
	}
}

// ---- the world: the real fixation store (on the model KV store / real IAVL natively) next to the model ----

type verifC14World struct {
	fs     *FixationStore
	ts     *timerstoretypes.TimerStore
	ctx    sdk.Context
	height int64
	m      *verifC14Model
	blocks []uint64 // every block a version was ever appended at
}

func verifC14NewWorld() *verifC14World {
	key := storetypes.NewKVStoreKey("fixation")
	ctx := verifCtx(100, 1700000000, key)
	cdc := verifCdc()
	ts := timerstoretypes.NewTimerStore(key, cdc, "fx")
	fs := NewFixationStore(key, cdc, "fx", ts, func(sdk.Context) uint64 { return verifC14Stale })
	return &verifC14World{fs: fs, ts: ts, ctx: ctx, height: 100, m: &verifC14Model{}}
}

func (w *verifC14World) now() uint64 { return uint64(w.height) }
func (w *verifC14World) nextDecade() uint64 {
	return w.now() - w.now()%verifC14Decade + verifC14Decade
}

func (w *verifC14World) advance(blocks int) {
	for i := 0; i < blocks; i++ {
		w.height++
		w.ctx = w.ctx.WithBlockHeight(w.height)
		w.ts.Tick(w.ctx)
		w.m.tick(w.now())
		w.compare()
	}
}

func verifC14Data(val int64) *sdk.Coin {
	return &sdk.Coin{Denom: "v", Amount: sdkmath.NewInt(val)}
}

// every lookup the store offers without side effects agrees with the model, for every block of interest
func (w *verifC14World) compare() {
	probe := append([]uint64{}, w.blocks...)
	probe = append(probe, w.now(), w.nextDecade(), w.nextDecade()+verifC14Decade)
	for _, b := range probe {
		var got sdk.Coin
		gotBlock, _, gotLatest, found := w.fs.FindEntryDetailed(w.ctx, verifC14Index, b, &got)
		want := w.m.find(b, w.now())
		verif_assert("lookup-found-iff-the-model-finds-a-visible-version", found == (want != nil))
		if found && want != nil {
			verif_assert("lookup-returns-the-nearest-no-later-version", gotBlock == want.block && got.Amount.Int64() == want.val)
			verif_assert("latest-flag-marks-the-version-in-effect", gotLatest == want.latest)
		}
	}
}

func (w *verifC14World) step(op int, val int64) {
	switch op {
	case 0, 1: // append now / for the next decade
		b := w.now()
		if op == 1 {
			b = w.nextDecade()
		}
		err := w.fs.AppendEntry(w.ctx, verifC14Index, b, verifC14Data(val))
		ok := w.m.append(b, w.now(), val)
		verif_assert("append-accepted-iff-legal", (err == nil) == ok)
		if ok {
			w.blocks = append(w.blocks, b)
		}
	case 2, 3: // delete now / at the next decade
		b := w.now()
		if op == 3 {
			b = w.nextDecade()
		}
		err := w.fs.DelEntry(w.ctx, verifC14Index, b)
		ok := w.m.del(b, w.now())
		verif_assert("delete-accepted-iff-there-is-something-to-delete", (err == nil) == ok)
	case 4: // take a reference to the latest version
		var got sdk.Coin
		found := w.fs.GetEntry(w.ctx, verifC14Index, &got)
		want := w.m.find(w.now(), w.now())
		verif_assert("get-finds-the-latest-version-in-effect", found == (want != nil))
		if found && want != nil {
			verif_assert("get-returns-the-latest-version-in-effect", got.Amount.Int64() == want.val && want.latest)
			want.ext++
			w.m.held = append(w.m.held, want)
		}
	case 5: // return the oldest reference taken
		if len(w.m.held) > 0 {
			v := w.m.held[0]
			w.m.held = w.m.held[1:]
			w.fs.PutEntry(w.ctx, verifC14Index, v.block)
			v.ext--
			w.m.maybeZero(v, w.now())
		}
	}
	w.compare()
}

// VerifC14Model: one index; a first version at block 100, then an arbitrary history of appends (now / for the next
// decade), deletions (now / at the next decade), reference get and put, each followed by 0, 1 or 5 blocks of chain
// progress (every block begins with the store's timers); finally the chain runs two more decades.  After every
// operation and every block, every side-effect-free lookup (for each block a version was appended at, the current
// block and the next two decades) agrees with the reference model: nearest-no-later visible version, future versions
// from their block on, deletions from the delete block on, unreferenced versions findable for the stale period and
// then gone - also after the store garbage-collects them.  Legal use never panics.
func VerifC14Model() { verifC14Run(false) }

// VerifC14AfterDelete: the same, with the first version deleted in the block it was appended in before the free steps
// (re-creation of a deleted entry is then within reach of the quick tier's two steps).
func VerifC14AfterDelete() { verifC14Run(true) }

// VerifC14HeldReference: the same, with a reference taken to the first version (GetEntry) and one block passed before the
// free steps: superseded and deleted versions then sit behind a version that stays referenced, which is where the store's
// garbage collection keeps stale versions as markers.
func VerifC14HeldReference() { verifC14RunPrefix(false, true) }

func verifC14Run(deleteFirst bool) { verifC14RunPrefix(deleteFirst, false) }

func verifC14RunPrefix(deleteFirst, holdFirst bool) {
	w := verifC14NewWorld()
	val := int64(1)
	w.step(0, val)
	if deleteFirst {
		w.step(2, 0)
	}
	if holdFirst {
		w.step(4, 0)
		w.advance(1)
	}
	steps := verif_param("steps", 2)
	for s := 0; s < steps; s++ {
		val++
		w.step(verif_nondet_range("step.op", 0, 5), val)
		w.advance([]int{0, 1, 5}[verif_nondet_range("step.blocksLater", 0, 2)])
	}
	w.advance(2 * verifC14Decade)
	// the end: whatever is the latest version in effect can still be taken
	w.step(4, 0)
	verif_reach("end")
}
