package keeper

import (
	"github.com/cometbft/cometbft/libs/log"
	"github.com/cosmos/cosmos-sdk/codec"
	storetypes "github.com/cosmos/cosmos-sdk/store/types"
	sdk "github.com/cosmos/cosmos-sdk/types"
	paramtypes "github.com/cosmos/cosmos-sdk/x/params/types"
	"github.com/lavanet/lava/v5/utils"
	"github.com/lavanet/lava/v5/x/epochstorage/types"
)

// ---- the module's raw params (symbolic run: stubs of the paramstore accessors; native: a real params subspace) ----
var verifC16Params types.Params

func verifC16EpochBlocksRaw(k Keeper, ctx sdk.Context) uint64    { return verifC16Params.EpochBlocks }
func verifC16EpochsToSaveRaw(k Keeper, ctx sdk.Context) uint64   { return verifC16Params.EpochsToSave }
func verifC16LatestParamChange(k Keeper, ctx sdk.Context) uint64 { return verifC16Params.LatestParamChange }
func verifC16SubspaceSet(s paramtypes.Subspace, ctx sdk.Context, key []byte, value interface{}) {
	if string(key) == string(types.KeyLatestParamChange) {
		verifC16Params.LatestParamChange = value.(uint64)
		return
	}
	panic("verif: unexpected paramstore.Set")
}
func verifC16Logger(k Keeper, ctx sdk.Context) log.Logger { return nil }

type verifC16World struct {
	k   *Keeper
	ctx sdk.Context
}

func (w *verifC16World) setParams(p types.Params) {
	if verif_symbolic() {
		verifC16Params = p
	} else {
		w.k.SetParams(w.ctx, p)
	}
}

func (w *verifC16World) at(block uint64) sdk.Context { return w.ctx.WithBlockHeight(int64(block)) }

// what BeginBlock does for the epoch grid at an epoch start (EpochStart minus epoch hash and stake-entry snapshots)
func (w *verifC16World) epochStart(block uint64) {
	ctx := w.at(block)
	w.k.FixateParams(ctx, block)
	w.k.SetEpochDetailsStart(ctx, block)
	w.k.UpdateEarliestEpochstart(ctx)
}

// a chain in steady state at height `start` (an epoch start): one fixation of (epochBlocks, epochsToSave) at block 0,
// no parameter change in memory, earliest epoch `kept` epochs back
func verifC16NewWorld(epochBlocks, epochsToSave, start, kept uint64) *verifC16World {
	key := storetypes.NewKVStoreKey(types.StoreKey)
	tkey := storetypes.NewTransientStoreKey("transient_epochstorage_params")
	ctx := verifCtx(int64(start), 1700000000, key, tkey)
	cdc := verifCdc()
	k := &Keeper{cdc: cdc, storeKey: key, fixationRegistries: map[string]func(sdk.Context) any{}}
	if !verif_symbolic() {
		k.paramstore = paramtypes.NewSubspace(cdc, codec.NewLegacyAmino(), key, tkey, "epochstorage").WithKeyTable(types.ParamKeyTable())
	}
	k.AddFixationRegistry(string(types.KeyEpochBlocks), func(ctx sdk.Context) any { return k.EpochBlocksRaw(ctx) })
	k.AddFixationRegistry(string(types.KeyEpochsToSave), func(ctx sdk.Context) any { return k.EpochsToSaveRaw(ctx) })
	w := &verifC16World{k: k, ctx: ctx}
	w.setParams(types.Params{EpochBlocks: epochBlocks, EpochsToSave: epochsToSave, LatestParamChange: 0})
	k.SetFixatedParams(ctx, types.FixatedParams{Index: string(types.KeyEpochBlocks) + "0", Parameter: utils.Serialize(epochBlocks), FixationBlock: 0})
	k.SetFixatedParams(ctx, types.FixatedParams{Index: string(types.KeyEpochsToSave) + "0", Parameter: utils.Serialize(epochsToSave), FixationBlock: 0})
	k.SetEpochDetails(ctx, types.EpochDetails{StartBlock: start, EarliestStart: start - kept*epochBlocks})
	return w
}

var verifC16Lengths = []uint64{5, 8, 20}

// VerifC16Grid: from a steady state, governance changes the epoch length and/or the number of epochs kept during
// the running epoch (or not at all); the next two epoch starts run their epoch-start processing.  After each, every
// block still in memory maps to exactly one epoch start no later than itself and less than an epoch length away, the
// block where epoch-start processing ran is an epoch start and the blocks before it in that epoch are not, the next
// epoch is strictly later, and the earliest epoch kept only moves forward and drops only epochs older than the
// blocks-to-save window in force at that epoch.
func VerifC16Grid() {
	e0 := verifC16Lengths[verif_nondet_range("epochBlocks.before", 0, verif_param("lengths_before", 2)-1)]
	s0 := uint64(verif_nondet_range("epochsToSave.before", 1, verif_param("max_epochs_to_save", 2)))
	e1 := verifC16Lengths[verif_nondet_range("epochBlocks.after", 0, 2)]
	s1 := uint64(verif_nondet_range("epochsToSave.after", 1, verif_param("max_epochs_to_save", 2)))
	m := uint64(verif_nondet_range("epochsSinceGenesis", 4, verif_param("max_epochs_since_genesis", 4)))
	kept := s0     // chain memory is full ...
	if verif_nondet_bool("memoryStillFilling") {
		kept = 0 // ... or the chain has just started keeping epochs
	}
	start := m * e0
	w := verifC16NewWorld(e0, s0, start, kept)
	earliest0 := w.k.GetEarliestEpochStart(w.ctx)

	changed := e1 != e0 || s1 != s0
	if changed {
		c := start + uint64(verif_nondet_in("paramChange.offsetInEpoch", 0, 19))
		verif_assume(c < start+e0)
		w.setParams(types.Params{EpochBlocks: e1, EpochsToSave: s1, LatestParamChange: c})
	}
	// the running epoch still has the old length: blocks strictly inside it are not epoch starts, its end is
	x := start + uint64(verif_nondet_in("probe.offsetInEpoch", 1, 19))
	verif_assume(x < start+e0)
	verif_assert("block-inside-the-running-epoch-is-not-an-epoch-start", !w.k.IsEpochStart(w.at(x)))
	b1 := start + e0
	verif_assert("end-of-the-running-epoch-is-an-epoch-start", w.k.IsEpochStart(w.at(b1)))
	w.epochStart(b1)
	verifC16CheckGrid(w, b1, earliest0, "first")
	earliest1 := w.k.GetEarliestEpochStart(w.at(b1))

	// second epoch start: one new-length epoch later
	y := b1 + uint64(verif_nondet_in("probe2.offsetInEpoch", 1, 19))
	verif_assume(y < b1+e1)
	verif_assert("block-inside-the-next-epoch-is-not-an-epoch-start", !w.k.IsEpochStart(w.at(y)))
	b2 := b1 + e1
	verif_assert("next-epoch-start-is-one-new-length-later", w.k.IsEpochStart(w.at(b2)))
	w.epochStart(b2)
	verifC16CheckGrid(w, b2, earliest1, "second")
	verif_reach("end")
	if changed {
		verif_reach("changed")
	}
}

func verifC16CheckGrid(w *verifC16World, now uint64, earliestBefore uint64, tag string) {
	ctx := w.at(now)
	k := w.k
	earliest := k.GetEarliestEpochStart(ctx)
	verif_assert("earliest-epoch-only-moves-forward", earliest >= earliestBefore && earliest <= now)
	verif_assert("epoch-start-processing-block-is-recorded-as-current-epoch", k.GetEpochStart(ctx) == now)
	s, in, err := k.GetEpochStartForBlock(ctx, now)
	verif_assert("block-where-epoch-start-ran-is-an-epoch-start", err == nil && s == now && in == 0)
	// every dropped epoch is older than the window in force at that epoch (the earliest epoch before the update)
	for _, d := range k.GetDeletedEpochs(ctx) {
		verif_assert("dropped-epoch-was-kept-before", d >= earliestBefore && d < earliest)
	}
	// an arbitrary block still in memory
	q := uint64(verif_nondet_in("query.block."+tag, 0, 400))
	verif_assume(q >= earliest && q <= now+30)
	qs, qin, qerr := k.GetEpochStartForBlock(ctx, q)
	verif_assert("block-in-memory-resolves", qerr == nil)
	eb, eberr := k.EpochBlocks(ctx, q)
	verif_assert("epoch-length-in-memory-resolves", eberr == nil && eb > 0)
	verif_assert("epoch-start-not-after-block-and-within-one-epoch-length", qs <= q && q-qs == qin && qin < eb)
	qs2, _, _ := k.GetEpochStartForBlock(ctx, qs)
	verif_assert("epoch-start-is-its-own-epoch-start", qs2 == qs)
	next, nerr := k.GetNextEpoch(ctx, q)
	verif_assert("next-epoch-strictly-later", nerr == nil && next > q)
}

// VerifC16History: a longer history.  From a steady state (epochs of 5 blocks, 4 epochs kept, 8 epochs since
// genesis) three governance steps follow, two epochs apart; each changes the epoch length, the epochs to save, or
// nothing.  Every epoch start runs its processing.  After each one, every block still in memory resolves to an
// epoch start, an epoch length and a blocks-to-save window (no fixation that is still needed was dropped), and the
// earliest epoch only moves forward.
func VerifC16History() {
	e := uint64(5)
	s := uint64(4)
	start := uint64(40)
	w := verifC16NewWorld(e, s, start, s)
	block := start
	earliest := w.k.GetEarliestEpochStart(w.ctx)
	steps := verif_param("governance_steps", 3)
	total := 2*steps + 3
	for i := 0; i < total; i++ {
		if i%2 == 0 && i/2 < steps {
			switch verif_nondet_range("step.change", 0, 2) {
			case 1: // epoch length 5 -> 4 -> 6 -> 5 ...
				e = []uint64{4, 6, 5}[(i/2)%3]
				w.setParams(types.Params{EpochBlocks: e, EpochsToSave: s, LatestParamChange: block + 1})
			case 2:
				s = s + 1
				w.setParams(types.Params{EpochBlocks: e, EpochsToSave: s, LatestParamChange: block + 1})
			}
		}
		// the next epoch start according to the chain itself
		next, err := w.k.GetNextEpoch(w.at(block), block)
		verif_assert("next-epoch-resolves", err == nil && next > block && next <= block+6)
		block = next
		verif_assert("next-epoch-is-an-epoch-start", w.k.IsEpochStart(w.at(block)))
		w.epochStart(block)
		ctx := w.at(block)
		ne := w.k.GetEarliestEpochStart(ctx)
		verif_assert("history-earliest-epoch-only-moves-forward", ne >= earliest && ne <= block)
		earliest = ne
		// the earliest block in memory and the current one resolve completely
		for _, q := range []uint64{earliest, block} {
			_, _, e1 := w.k.GetEpochStartForBlock(ctx, q)
			_, e2 := w.k.EpochBlocks(ctx, q)
			_, e3 := w.k.EpochsToSave(ctx, q)
			_, e4 := w.k.BlocksToSave(ctx, q)
			verif_assert("block-in-memory-keeps-its-fixated-params", e1 == nil && e2 == nil && e3 == nil && e4 == nil)
		}
	}
	verif_reach("end")
}
