package types

import "bytes"

// numbers are bounded to one byte in these harnesses (verifC25Num), so one byte renders them injectively
func verifC25U64(v uint64) string { return string([]byte{byte(v)}) }

func verifC25Num(name string) uint64 { return uint64(verif_nondet_byte(name)) }

// Stand-ins for the proto text rendering (String) used by the symbolic run only: an injective rendering of every
// field of the message with fixed-width numbers and separators. The native replay runs the real String().
func verifC25RelayDataString(m *RelayPrivateData) string {
	if m == nil {
		return "nil"
	}
	s := "ct:" + m.ConnectionType + "|url:" + m.ApiUrl + "|data:" + string(m.Data) + "|rb:" + verifC25U64(uint64(m.RequestBlock)) +
		"|if:" + m.ApiInterface + "|salt:" + string(m.Salt) + "|addon:" + m.Addon + "|sb:" + verifC25U64(uint64(m.SeenBlock)) + "|rid:" + m.RequestId
	for _, md := range m.Metadata {
		s += "|md:" + md.Name + "=" + md.Value
	}
	for _, e := range m.Extensions {
		s += "|ext:" + e
	}
	return s
}

func verifC25SessionString(m *RelaySession) string {
	if m == nil {
		return "nil"
	}
	s := "spec:" + m.SpecId + "|ch:" + string(m.ContentHash) + "|sid:" + verifC25U64(m.SessionId) + "|cu:" + verifC25U64(m.CuSum) +
		"|prov:" + m.Provider + "|rn:" + verifC25U64(m.RelayNum) + "|ep:" + verifC25U64(uint64(m.Epoch)) + "|lcid:" + m.LavaChainId + "|sig:" + string(m.Sig)
	if m.Badge != nil {
		s += "|badge:" + verifC25U64(m.Badge.CuAllocation) + m.Badge.Address
	}
	for _, u := range m.UnresponsiveProviders {
		s += "|up:" + u.Address
	}
	return s
}

func verifC25Request(tag string, n int) *RelayRequest {
	return &RelayRequest{
		RelaySession: &RelaySession{SpecId: "LAV1", SessionId: 1},
		RelayData: &RelayPrivateData{
			ConnectionType: verif_nondet_string(tag+".ConnectionType", n),
			ApiUrl:         verif_nondet_string(tag+".ApiUrl", n),
			Data:           verif_nondet_bytes(tag+".Data", n),
			RequestBlock:   int64(verifC25Num(tag + ".RequestBlock")),
			ApiInterface:   verif_nondet_string(tag+".ApiInterface", n),
			Salt:           verif_nondet_bytes(tag+".Salt", 2),
			Addon:          verif_nondet_string(tag+".Addon", n),
			Extensions:     []string{verif_nondet_string(tag+".Extensions[0]", n)},
			SeenBlock:      int64(verifC25Num(tag + ".SeenBlock")),
		},
	}
}

func verifC25Reply(tag string, n int) *RelayReply {
	return &RelayReply{
		Data:     verif_nondet_bytes(tag+".Data", n),
		Sig:      verif_nondet_bytes(tag+".Sig", 2),
		Metadata: []Metadata{{Name: verif_nondet_string(tag+".Metadata[0].Name", n), Value: verif_nondet_string(tag+".Metadata[0].Value", n)}},
	}
}

// VerifC25ExchangeNoMutation: computing what a provider signature covers (the first step of verifying a reply, as
// VerifyRelayReply / RecoverPubKey do: NewRelayExchange(*request, *reply).DataToSign()) leaves the caller's request
// and reply untouched.
func VerifC25ExchangeNoMutation() {
	req := verifC25Request("req", 1)
	reply := verifC25Reply("reply", 1)
	salt0, salt1 := req.RelayData.Salt[0], req.RelayData.Salt[1]
	data0 := req.RelayData.Data[0]
	sig0, sig1 := reply.Sig[0], reply.Sig[1]

	_ = NewRelayExchange(*req, *reply).DataToSign()

	verif_assert("request-salt-kept", len(req.RelayData.Salt) == 2 && req.RelayData.Salt[0] == salt0 && req.RelayData.Salt[1] == salt1)
	verif_assert("request-data-kept", len(req.RelayData.Data) == 1 && req.RelayData.Data[0] == data0)
	verif_assert("reply-sig-kept", len(reply.Sig) == 2 && reply.Sig[0] == sig0 && reply.Sig[1] == sig1)
	verif_reach("end")
}

// VerifC25ExchangeBinds: two exchanges with equal signed bytes have equal reply data, reply metadata and request
// data (salt apart); salt and reply signature do not influence the signed bytes.
func VerifC25ExchangeBinds() {
	ra, rb := verifC25Request("a.req", 1), verifC25Request("b.req", 1)
	pa, pb := verifC25Reply("a.reply", 1), verifC25Reply("b.reply", 1)
	da := NewRelayExchange(*ra, *pa).DataToSign()
	db := NewRelayExchange(*rb, *pb).DataToSign()
	a, b := ra.RelayData, rb.RelayData
	sameSigned := bytes.Equal(pa.Data, pb.Data) && pa.Metadata[0].Name == pb.Metadata[0].Name && pa.Metadata[0].Value == pb.Metadata[0].Value &&
		a.ConnectionType == b.ConnectionType && a.ApiUrl == b.ApiUrl && bytes.Equal(a.Data, b.Data) && a.RequestBlock == b.RequestBlock &&
		a.ApiInterface == b.ApiInterface && a.Addon == b.Addon && a.Extensions[0] == b.Extensions[0] && a.SeenBlock == b.SeenBlock
	if bytes.Equal(da, db) {
		verif_assert("equal-signed-bytes-imply-equal-signed-fields", sameSigned)
		verif_reach("equal")
	} else {
		verif_assert("salt-and-reply-sig-are-not-signed", !sameSigned)
		verif_reach("different")
	}
}

// VerifC25SessionBinds: the consumer-signed bytes of a relay session cover every signed field and ignore Sig and Badge.
func VerifC25SessionBinds() {
	mk := func(tag string) RelaySession {
		rs := RelaySession{
			SpecId:      verif_nondet_string(tag+".SpecId", 1),
			ContentHash: verif_nondet_bytes(tag+".ContentHash", 1),
			SessionId:   verifC25Num(tag + ".SessionId"),
			CuSum:       verifC25Num(tag + ".CuSum"),
			Provider:    verif_nondet_string(tag+".Provider", 1),
			RelayNum:    verifC25Num(tag + ".RelayNum"),
			Epoch:       int64(verifC25Num(tag + ".Epoch")),
			LavaChainId: verif_nondet_string(tag+".LavaChainId", 1),
			Sig:         verif_nondet_bytes(tag+".Sig", 1),
			UnresponsiveProviders: []*ReportedProvider{{Address: verif_nondet_string(tag+".Unresponsive[0]", 1)}},
		}
		if verif_nondet_bool(tag + ".hasBadge") {
			rs.Badge = &Badge{CuAllocation: verifC25Num(tag + ".Badge.CuAllocation"), Address: "b"}
		}
		return rs
	}
	a, b := mk("a"), mk("b")
	sig0 := a.Sig[0]
	hadBadge := a.Badge != nil
	da, db := a.DataToSign(), b.DataToSign()
	verif_assert("session-not-modified-by-signing", len(a.Sig) == 1 && a.Sig[0] == sig0 && (a.Badge != nil) == hadBadge)
	same := a.SpecId == b.SpecId && bytes.Equal(a.ContentHash, b.ContentHash) && a.SessionId == b.SessionId && a.CuSum == b.CuSum &&
		a.Provider == b.Provider && a.RelayNum == b.RelayNum && a.Epoch == b.Epoch && a.LavaChainId == b.LavaChainId &&
		a.UnresponsiveProviders[0].Address == b.UnresponsiveProviders[0].Address
	if bytes.Equal(da, db) {
		verif_assert("equal-session-bytes-imply-equal-signed-fields", same)
		verif_reach("equal")
	} else {
		verif_assert("sig-and-badge-are-not-signed", !same)
		verif_reach("different")
	}
}
