package types

import "bytes"

func verifC26Data(tag string, n int) RelayPrivateData {
	return RelayPrivateData{
		ConnectionType: verif_nondet_string(tag+".ConnectionType", n),
		ApiUrl:         verif_nondet_string(tag+".ApiUrl", n),
		Data:           verif_nondet_bytes(tag+".Data", n),
		RequestBlock:   verif_nondet_i64(tag + ".RequestBlock"),
		ApiInterface:   verif_nondet_string(tag+".ApiInterface", n),
		Salt:           verif_nondet_bytes(tag+".Salt", n),
		Metadata:       []Metadata{{Name: verif_nondet_string(tag+".Metadata[0].Name", n), Value: verif_nondet_string(tag+".Metadata[0].Value", n)}},
		Addon:          verif_nondet_string(tag+".Addon", n),
		Extensions:     []string{verif_nondet_string(tag+".Extensions[0]", n)},
		SeenBlock:      verif_nondet_i64(tag + ".SeenBlock"),
	}
}

// VerifC26Covers: two requests whose hashed fields have the same lengths (n bytes each, one metadata entry, one
// extension). Equal hash data must imply that every hashed field is equal: a field dropped from the hashed
// concatenation, or overwritten before hashing, shows up here.
func VerifC26Covers() {
	n := verif_param("len", 1)
	a := verifC26Data("a", n)
	b := verifC26Data("b", n)
	ha := a.GetContentHashData()
	hb := b.GetContentHashData()
	if !bytes.Equal(ha, hb) {
		verif_reach("different")
		return
	}
	verif_assert("same-hash-same-data", bytes.Equal(a.Data, b.Data))
	verif_assert("same-hash-same-url", a.ApiUrl == b.ApiUrl)
	verif_assert("same-hash-same-connection-type", a.ConnectionType == b.ConnectionType)
	verif_assert("same-hash-same-api-interface", a.ApiInterface == b.ApiInterface)
	verif_assert("same-hash-same-addon", a.Addon == b.Addon)
	verif_assert("same-hash-same-extensions", a.Extensions[0] == b.Extensions[0])
	verif_assert("same-hash-same-metadata", a.Metadata[0].Name == b.Metadata[0].Name && a.Metadata[0].Value == b.Metadata[0].Value)
	verif_assert("same-hash-same-requested-block", a.RequestBlock == b.RequestBlock)
	verif_assert("same-hash-same-seen-block", a.SeenBlock == b.SeenBlock)
	verif_assert("same-hash-same-salt", bytes.Equal(a.Salt, b.Salt))
	verif_reach("equal")
}

// VerifC26Shift: two requests that differ only in how the same bytes are split between two adjacent
// variable-length hashed fields (lengths 0..2 each). Different requests must have different hash data.
func VerifC26Shift() {
	pair := verif_nondet_range("pair", 0, 5)
	la1 := verif_nondet_range("a.len1", 0, 2)
	la2 := verif_nondet_range("a.len2", 0, 2)
	lb1 := verif_nondet_range("b.len1", 0, 2)
	lb2 := verif_nondet_range("b.len2", 0, 2)
	a1, a2 := verif_nondet_string("a.f1", la1), verif_nondet_string("a.f2", la2)
	b1, b2 := verif_nondet_string("b.f1", lb1), verif_nondet_string("b.f2", lb2)
	a := RelayPrivateData{RequestBlock: 7, SeenBlock: 5, Salt: []byte{1, 2}}
	b := RelayPrivateData{RequestBlock: 7, SeenBlock: 5, Salt: []byte{1, 2}}
	switch pair {
	case 0:
		a.ApiUrl, a.Data, b.ApiUrl, b.Data = a1, []byte(a2), b1, []byte(b2)
	case 1:
		a.ConnectionType, a.ApiUrl, b.ConnectionType, b.ApiUrl = a1, a2, b1, b2
	case 2:
		a.ApiInterface, a.ConnectionType, b.ApiInterface, b.ConnectionType = a1, a2, b1, b2
	case 3:
		a.Addon, a.ApiInterface, b.Addon, b.ApiInterface = a1, a2, b1, b2
	case 4:
		a.Metadata, b.Metadata = []Metadata{{Name: a1, Value: a2}}, []Metadata{{Name: b1, Value: b2}}
	default:
		a.Extensions, b.Extensions = []string{a1, a2}, []string{b1, b2}
	}
	same := a1 == b1 && a2 == b2
	ha := a.GetContentHashData()
	hb := b.GetContentHashData()
	// known finding C26-no-length-prefix: the same bytes split differently between the two fields
	verif_known("C26-no-length-prefix", la1 != lb1 && la1+la2 == lb1+lb2)
	if !same {
		verif_assert("different-requests-different-hash-data", !bytes.Equal(ha, hb))
		verif_reach("differ")
	}
}
