package keeper

import (
	"cosmossdk.io/math"
	sdk "github.com/cosmos/cosmos-sdk/types"
	epochstoragetypes "github.com/lavanet/lava/v5/x/epochstorage/types"
	fixationtypes "github.com/lavanet/lava/v5/x/fixationstore/types"
	"github.com/lavanet/lava/v5/x/pairing/types"
	planstypes "github.com/lavanet/lava/v5/x/plans/types"
	spectypes "github.com/lavanet/lava/v5/x/spec/types"
	timerstoretypes "github.com/lavanet/lava/v5/x/timerstore/types"
)

// stake table of the epoch snapshot served by the model epochstorage keeper
var verifC02Entries []epochstoragetypes.StakeEntry

func (m *verifRPEpochs) GetAllStakeEntriesForEpochChainId(ctx sdk.Context, epoch uint64, chainID string) []epochstoragetypes.StakeEntry {
	out := make([]epochstoragetypes.StakeEntry, len(verifC02Entries))
	copy(out, verifC02Entries)
	return out
}
func (m *verifRPEpochs) GetEpochHash(ctx sdk.Context, epoch uint64) []byte { return []byte{1, 2, 3} }

func (m *verifRPSpecs) IsSpecFoundAndActive(ctx sdk.Context, chainID string) (bool, bool, spectypes.Spec_ProvidersTypes) {
	return m.found && m.enabled, m.found, m.providersType
}

// symbolic run: no reputation scores stored (stub of Keeper.GetReputationScoreForBlock); the native replay reads the
// real (empty) reputation fixation store
func verifC02Reputation(k Keeper, ctx sdk.Context, chainID string, cluster string, provider string, block uint64) (math.LegacyDec, uint64, bool) {
	return math.LegacyDec{}, 0, false
}

// VerifC02Pairing: a stake table of three providers (symbolic stakes, applied or not yet applied at the epoch), a
// policy with 1..3 providers to pair and an optional exclusive selected-provider list, a dynamic or static spec, and
// arbitrary PRNG draws.  The pairing has no duplicates, only providers of the table whose stake is applied at the
// epoch and that pass the exclusive list, exactly min(max-providers-to-pair, eligible) of them (all eligible ones for
// a static spec), the per-epoch allowance it reports is the policy's epoch CU limit, and verifying a provider
// against the consumer's pairing succeeds exactly for the providers in it.
func VerifC02Pairing() {
	epochLimit := verif_nondet_u64("policy.EpochCuLimit")
	verif_assume(epochLimit > 0 && epochLimit < 1<<40)
	w := verifRPNewWorld(epochLimit, 20)
	static := verif_nondet_bool("spec.staticProviders")
	if static {
		w.specs.providersType = spectypes.Spec_static
	}
	if !verif_symbolic() {
		ts := timerstoretypes.NewTimerStore(w.k.storeKey, w.k.cdc, types.ProviderQosStorePrefix)
		w.k.reputationsFS = *fixationtypes.NewFixationStore(w.k.storeKey, w.k.cdc, types.ProviderQosStorePrefix, ts, func(sdk.Context) uint64 { return 100 })
	}
	names := []string{verifRPAddr(1), verifRPAddr(4), verifRPAddr(5)}
	verifC02Entries = nil
	applied := make([]bool, 3)
	for i := 0; i < 3; i++ {
		stake := int64(verif_nondet_in("provider.stake", 1, 63))
		// stake applied long ago, after the epoch start but before the block the pairing is asked at, or in a later epoch
		ab := []uint64{10, 43, 200}[verif_nondet_range("provider.stakeAppliedBlock", 0, 2)]
		applied[i] = ab <= 40
		verifC02Entries = append(verifC02Entries, epochstoragetypes.StakeEntry{Address: names[i], Chain: "LAV1", Geolocation: 1, StakeAppliedBlock: ab,
			Stake: sdk.Coin{Denom: "ulava", Amount: math.NewInt(stake)}, DelegateTotal: sdk.Coin{Denom: "ulava", Amount: math.ZeroInt()}})
	}
	maxToPair := uint64(verif_nondet_range("policy.MaxProvidersToPair", 1, 3))
	exclusive := verif_nondet_range("policy.exclusiveSelectedProviders", 0, 2) // 0 none, 1 = {first}, 2 = {first, second}
	policy := planstypes.Policy{GeolocationProfile: 1, MaxProvidersToPair: maxToPair, EpochCuLimit: epochLimit, TotalCuLimit: 1 << 62}
	if exclusive > 0 {
		policy.SelectedProvidersMode = planstypes.SELECTED_PROVIDERS_MODE_EXCLUSIVE
		policy.SelectedProviders = names[:exclusive]
	}
	w.subs.plan.PlanPolicy = policy
	w.subs.plan.AllowedBuyers = nil
	draws := []int64{verif_nondet_i64("prng.draw"), verif_nondet_i64("prng.draw"), verif_nondet_i64("prng.draw")}

	verifC02SetDraws(draws)
	// the pairing is asked for at the epoch start or at a block inside the epoch (epochs of 20 blocks: 45 lies in epoch 40)
	askedAt := uint64(40 + 5*verif_nondet_range("pairingAskedAtBlockInEpoch/5", 0, 1))
	providers, allowedCU, _, err := w.k.getPairingForClient(w.ctx, "LAV1", askedAt, &policy, "cluster", "proj", false)

	eligible := 0
	ok := make([]bool, 3)
	for i := 0; i < 3; i++ {
		ok[i] = applied[i] && (static || exclusive == 0 || i < exclusive)
		if ok[i] {
			eligible++
		}
	}
	verif_assert("pairing-computed", err == nil)
	verif_assert("epoch-allowance-is-the-policy-epoch-cu-limit", allowedCU == epochLimit)
	want := eligible
	if !static && int(maxToPair) < eligible {
		want = int(maxToPair)
	}
	verif_assert("exactly-min-of-max-providers-and-eligible", len(providers) == want)
	in := make([]bool, 3)
	for a := 0; a < len(providers); a++ {
		idx := -1
		for i := 0; i < 3; i++ {
			if providers[a].Address == names[i] {
				idx = i
			}
		}
		verif_assert("paired-provider-is-staked-on-the-chain", idx >= 0)
		if idx >= 0 {
			verif_assert("paired-provider-is-eligible", ok[idx])
			verif_assert("no-duplicate-provider", !in[idx])
			in[idx] = true
		}
	}
	if static {
		verif_reach("static")
		return
	}
	// a provider is in the consumer's pairing iff pairing verification succeeds (recomputed with the same draws)
	project := w.projects.project
	for i := 0; i < 3; i++ {
		addr, aerr := sdk.AccAddressFromBech32(names[i])
		verif_assert("address-parses", aerr == nil)
		verifC02SetDraws(draws)
		valid, cu, _, verr := w.k.ValidatePairingForClient(w.ctx, "LAV1", addr, 40, project)
		verif_assert("verification-runs", verr == nil)
		verif_assert("in-pairing-iff-verification-succeeds", valid == in[i])
		if valid {
			verif_assert("verification-reports-the-epoch-allowance", cu == epochLimit)
		}
	}
	verif_reach("dynamic")
}
