package keeper

// Harness family RP: msgServer.RelayPayment executed as real code on the model store stack (shared helper kv.go),
// with the neighbouring keepers replaced by model keepers that log every state-changing call.
//
// Symbolic run stubs (check config): sdk.Context.KVStore, cachekv.*, sigs.ExtractSignerAddress (signer named by the
// first signature byte), sdk.AccAddressFromBech32 / AccAddress.String (identity on short address names), Keeper.Logger.
// Native replay: real IAVL stores, real protobuf codec, real secp256k1 signatures and bech32 addresses.

import (
	"fmt"

	btcSecp256k1 "github.com/btcsuite/btcd/btcec/v2"
	"github.com/cometbft/cometbft/libs/log"
	storetypes "github.com/cosmos/cosmos-sdk/store/types"
	sdk "github.com/cosmos/cosmos-sdk/types"
	"github.com/lavanet/lava/v5/utils/sigs"
	epochstoragetypes "github.com/lavanet/lava/v5/x/epochstorage/types"
	"github.com/lavanet/lava/v5/x/pairing/types"
	planstypes "github.com/lavanet/lava/v5/x/plans/types"
	projectstypes "github.com/lavanet/lava/v5/x/projects/types"
	spectypes "github.com/lavanet/lava/v5/x/spec/types"
	subscriptiontypes "github.com/lavanet/lava/v5/x/subscription/types"
	timerstoretypes "github.com/lavanet/lava/v5/x/timerstore/types"
)

// ---- identities: 1 = provider (tx creator), 2 = developer key of the project, 3 = subscription owner,
// 4 = badge user, 5 = stranger ----

var (
	verifRPKeys  [8]*btcSecp256k1.PrivateKey
	verifRPAddrs [8]sdk.AccAddress
)

func verifRPInitIdentities() {
	if verif_symbolic() {
		return
	}
	for i := 1; i < len(verifRPKeys); i++ {
		verifRPKeys[i], verifRPAddrs[i] = sigs.GenerateFloatingKey()
	}
}

func verifRPAddr(i int) string {
	if verif_symbolic() {
		return string([]byte{'a', byte('0' + i)})
	}
	return verifRPAddrs[i].String()
}

// sign: symbolic run = the signature names its signer; native = real signature
func verifRPSign(r *types.RelaySession, signer int) {
	if verif_symbolic() {
		r.Sig = []byte{byte(signer)}
		return
	}
	r.Sig = nil
	sig, err := sigs.Sign(verifRPKeys[signer], *r)
	if err != nil {
		panic(err)
	}
	r.Sig = sig
}

func verifRPSignBadge(b *types.Badge, signer int) {
	if verif_symbolic() {
		b.ProjectSig = []byte{byte(signer)}
		return
	}
	b.ProjectSig = nil
	sig, err := sigs.Sign(verifRPKeys[signer], *b)
	if err != nil {
		panic(err)
	}
	b.ProjectSig = sig
}

// stubs (symbolic run only)
func verifRPExtractSigner(data sigs.Signable) (sdk.AccAddress, error) {
	sig := data.GetSignature()
	if len(sig) != 1 || sig[0] == 0 || sig[0] > 7 {
		return nil, fmt.Errorf("bad signature")
	}
	return sdk.AccAddress([]byte{'a', '0' + sig[0]}), nil
}

func verifRPFromBech32(address string) (sdk.AccAddress, error) {
	if len(address) != 2 || address[0] != 'a' {
		return nil, fmt.Errorf("bad address")
	}
	return sdk.AccAddress([]byte(address)), nil
}

func verifRPAddrString(aa sdk.AccAddress) string { return string(aa) }

func verifRPLogger(k Keeper, ctx sdk.Context) log.Logger { return nil }

// ---- model keepers ----

const verifRPEpochBlocks = 20

type verifRPEpochs struct {
	types.EpochstorageKeeper
	earliest     uint64
	blocksToSave uint64 // blocks-to-save fixated for blocks below paramChangeAt (and for all blocks when that is 0)
	// a governance change of epochs-to-save taking effect at paramChangeAt: later blocks see blocksToSaveNew
	paramChangeAt   uint64
	blocksToSaveNew uint64
	current         uint64 // current epoch start (0 = 100)
}

func (m *verifRPEpochs) blocksToSaveAt(block uint64) uint64 {
	if m.paramChangeAt != 0 && block >= m.paramChangeAt {
		return m.blocksToSaveNew
	}
	return m.blocksToSave
}

func (m *verifRPEpochs) GetEpochStartForBlock(ctx sdk.Context, block uint64) (uint64, uint64, error) {
	return block - block%verifRPEpochBlocks, block % verifRPEpochBlocks, nil
}
func (m *verifRPEpochs) GetEarliestEpochStart(ctx sdk.Context) uint64 { return m.earliest }
func (m *verifRPEpochs) BlocksToSave(ctx sdk.Context, block uint64) (uint64, error) {
	return m.blocksToSaveAt(block), nil
}
func (m *verifRPEpochs) BlocksToSaveRaw(ctx sdk.Context) uint64 { return m.blocksToSaveAt(100) }
func (m *verifRPEpochs) GetEpochStart(ctx sdk.Context) uint64 {
	if m.current != 0 {
		return m.current
	}
	return 100
}

type verifRPSpecs struct {
	types.SpecKeeper
	enabled       bool
	found         bool
	providersType spectypes.Spec_ProvidersTypes
}

func (m *verifRPSpecs) GetSpec(ctx sdk.Context, index string) (spectypes.Spec, bool) {
	return spectypes.Spec{Index: index, Enabled: m.enabled}, m.found
}

type verifRPCharge struct {
	target string
	block  uint64
	cu     uint64
}

type verifRPProjects struct {
	types.ProjectsKeeper
	project   projectstypes.Project
	developer string // the address that resolves to the project
	charges   []verifRPCharge
}

func (m *verifRPProjects) GetProjectForDeveloper(ctx sdk.Context, developerKey string, blockHeight uint64) (projectstypes.Project, error) {
	if developerKey != m.developer {
		return projectstypes.Project{}, fmt.Errorf("no project for developer key")
	}
	return m.project, nil
}

func (m *verifRPProjects) ChargeComputeUnitsToProject(ctx sdk.Context, project projectstypes.Project, block, cu uint64) error {
	m.charges = append(m.charges, verifRPCharge{project.Index, block, cu})
	return nil
}

type verifRPTracked struct {
	sub, provider, chain string
	cu, block            uint64
}

type verifRPSubs struct {
	types.SubscriptionKeeper
	plan    planstypes.Plan
	sub     subscriptiontypes.Subscription
	charges []verifRPCharge
	tracked []verifRPTracked
}

func (m *verifRPSubs) GetPlanFromSubscription(ctx sdk.Context, consumer string, block uint64) (planstypes.Plan, error) {
	return m.plan, nil
}
func (m *verifRPSubs) GetSubscription(ctx sdk.Context, consumer string) (subscriptiontypes.Subscription, bool) {
	return m.sub, true
}
func (m *verifRPSubs) ChargeComputeUnitsToSubscription(ctx sdk.Context, owner string, block, cu uint64) (subscriptiontypes.Subscription, error) {
	m.charges = append(m.charges, verifRPCharge{owner, block, cu})
	return m.sub, nil
}
func (m *verifRPSubs) AddTrackedCu(ctx sdk.Context, sub string, provider string, chainID string, cu uint64, block uint64) error {
	m.tracked = append(m.tracked, verifRPTracked{sub, provider, chainID, cu, block})
	return nil
}

type verifRPDowntime struct{ types.DowntimeKeeper }

func (verifRPDowntime) GetDowntimeFactor(ctx sdk.Context, epochStartBlock uint64) uint64 { return 1 }

// ---- world ----

type verifRPWorld struct {
	ctx      sdk.Context
	k        Keeper
	srv      msgServer
	epochs   *verifRPEpochs
	specs    *verifRPSpecs
	projects *verifRPProjects
	subs     *verifRPSubs
}

// a chain at height 100 (epochs of 20 blocks), one enabled project "proj" of subscription owner 3 whose developer
// key is identity 2, plan with the given epoch CU limit and an effectively unlimited total limit
func verifRPNewWorld(epochLimit uint64, earliest uint64) *verifRPWorld {
	verifRPInitIdentities()
	key := storetypes.NewKVStoreKey(types.StoreKey)
	w := &verifRPWorld{}
	w.ctx = verifCtx(100, 1700000000, key)
	w.epochs = &verifRPEpochs{earliest: earliest, blocksToSave: 10 * verifRPEpochBlocks}
	w.specs = &verifRPSpecs{enabled: true, found: true}
	w.projects = &verifRPProjects{developer: verifRPAddr(2), project: projectstypes.Project{Index: "proj", Subscription: verifRPAddr(3), Enabled: true}}
	w.subs = &verifRPSubs{
		plan: planstypes.Plan{Index: "plan", PlanPolicy: planstypes.Policy{EpochCuLimit: epochLimit, TotalCuLimit: 1 << 62, MaxProvidersToPair: 2}},
		sub:  subscriptiontypes.Subscription{Consumer: verifRPAddr(3), MonthCuLeft: 1 << 62, Block: 10},
	}
	w.k = Keeper{cdc: verifCdc(), storeKey: key, epochStorageKeeper: w.epochs, specKeeper: w.specs, projectsKeeper: w.projects,
		subscriptionKeeper: w.subs, downtimeKeeper: verifRPDowntime{}}
	w.srv = msgServer{Keeper: w.k}
	return w
}

// the pairing of (proj, chain, epoch) as the pairing cache of this block holds it
func (w *verifRPWorld) setPairing(chain string, epoch uint64, allowedCU uint64, providerPaired bool) {
	entries := []epochstoragetypes.StakeEntry{{Address: verifRPAddr(5), Chain: chain}}
	if providerPaired {
		entries = append(entries, epochstoragetypes.StakeEntry{Address: verifRPAddr(1), Chain: chain})
	}
	w.k.SetPairingRelayCache(w.ctx, "proj", chain, epoch, entries, allowedCU)
}

func verifRPRelay(epoch int64, session uint64, cu uint64) *types.RelaySession {
	return &types.RelaySession{SpecId: "LAV1", SessionId: session, CuSum: cu, Provider: verifRPAddr(1), RelayNum: 1,
		Epoch: epoch, LavaChainId: "lava", ContentHash: []byte{1}}
}

func (w *verifRPWorld) trackedFor(epoch uint64) uint64 {
	pcec, found := w.k.GetProviderConsumerEpochCu(w.ctx, epoch, verifRPAddr(1), "proj", "LAV1")
	if !found {
		return 0
	}
	return pcec.Cu
}

// VerifRPPayments: one payment transaction with n relays of the project's consumer to the provider.  Each relay
// names block 20, 40 or 45 (epochs of 20 blocks: 45 lies inside epoch 40) and session 1 or 2 (so relays may repeat a session, inside the transaction or against a
// session paid earlier) and an arbitrary CU sum.  Earlier payments of the epoch are in the store (prior tracked CU).
func VerifRPPayments() {
	n := verif_param("relays", 2)
	allowed := verif_nondet_u64("epochAllowedCU")
	prior20 := verif_nondet_u64("priorTrackedCU.epoch20")
	paidBefore := verif_nondet_range("sessionPaidEarlier", 0, 2) // 0 none, 1 = (epoch 20, session 1), 2 = (epoch 40, session 2)
	earliest := uint64(20 * verif_nondet_range("earliestEpochInMemory", 1, 2))
	verif_assume(allowed > 0 && allowed < 1<<40 && prior20 <= allowed)
	w := verifRPNewWorld(allowed, earliest)
	w.setPairing("LAV1", 20, allowed, true)
	w.setPairing("LAV1", 40, allowed, true)
	if prior20 > 0 {
		w.k.SetProviderConsumerEpochCu(w.ctx, 20, verifRPAddr(1), "proj", "LAV1", types.ProviderConsumerEpochCu{Cu: prior20})
	}
	if paidBefore == 1 {
		w.k.SetUniqueEpochSession(w.ctx, 20, verifRPAddr(1), "proj", "LAV1", 1)
	} else if paidBefore == 2 {
		w.k.SetUniqueEpochSession(w.ctx, 40, verifRPAddr(1), "proj", "LAV1", 2)
	}
	msg := &types.MsgRelayPayment{Creator: verifRPAddr(1)}
	epochs := make([]uint64, n) // epoch start of the block the relay names
	blocks := make([]uint64, n) // the block the relay names: an epoch start (20, 40) or a block inside epoch 40 (45)
	sessions := make([]uint64, n)
	cus := make([]uint64, n)
	atEpochStarts := true
	for i := 0; i < n; i++ {
		blocks[i] = []uint64{20, 40, 45}[verif_nondet_range("relay.block", 0, 2)]
		epochs[i] = blocks[i] - blocks[i]%verifRPEpochBlocks
		if blocks[i] != epochs[i] {
			atEpochStarts = false
		}
		sessions[i] = uint64(verif_nondet_range("relay.session", 1, 2))
		cus[i] = verif_nondet_u64("relay.cuSum")
		verif_assume(cus[i] > 0 && cus[i] < 1<<40)
		r := verifRPRelay(int64(blocks[i]), sessions[i], cus[i])
		verifRPSign(r, 2)
		msg.Relays = append(msg.Relays, r)
	}
	w.setPairing("LAV1", 45, allowed, true)

	_, err := w.srv.RelayPayment(sdk.WrapSDKContext(w.ctx), msg)

	// oracle: which relays are payable
	fresh := make([]bool, n)
	allFresh := true
	for i := 0; i < n; i++ {
		fresh[i] = epochs[i] >= earliest
		if paidBefore == 1 && epochs[i] == 20 && sessions[i] == 1 {
			fresh[i] = false
		}
		if paidBefore == 2 && epochs[i] == 40 && sessions[i] == 2 {
			fresh[i] = false
		}
		for j := 0; j < i; j++ {
			if epochs[j] == epochs[i] && sessions[j] == sessions[i] {
				fresh[i] = false
			}
		}
		if !fresh[i] {
			allFresh = false
		}
	}
	credits := len(w.subs.tracked)
	nFresh := 0
	for i := 0; i < n; i++ {
		if fresh[i] {
			nFresh++
		}
	}
	// C03: a session is credited at most once (also inside a failing transaction, before the SDK rolls it back)
	verif_assert("no-more-credits-than-fresh-distinct-sessions", credits <= nFresh)
	if err != nil {
		verif_assert("transaction-with-only-fresh-sessions-at-epoch-starts-is-accepted", !allFresh || !atEpochStarts)
		verif_reach("rejected")
		return
	}
	verif_assert("accepted-transaction-has-only-fresh-distinct-sessions", allFresh)
	verif_assert("one-credit-per-relay", credits == n && len(w.projects.charges) == n && len(w.subs.charges) == n)
	var credited20, credited40, signed20, signed40 uint64
	for i := 0; i < n; i++ {
		t := w.subs.tracked[i]
		// C04: credited CU never above the signed CU of that relay; C17: project and subscription charged the signed CU once
		verif_assert("credited-at-most-signed-cu", t.cu <= cus[i])
		verif_assert("credit-goes-to-the-subscription-provider-and-chain", t.sub == verifRPAddr(3) && t.provider == verifRPAddr(1) && t.chain == "LAV1" && t.block == 10)
		verif_assert("project-charged-signed-cu-once", w.projects.charges[i].target == "proj" && w.projects.charges[i].cu == cus[i] && w.projects.charges[i].block == blocks[i])
		verif_assert("subscription-charged-signed-cu-once", w.subs.charges[i].target == verifRPAddr(3) && w.subs.charges[i].cu == cus[i])
		if epochs[i] == 20 {
			credited20 += t.cu
			signed20 += cus[i]
		} else {
			credited40 += t.cu
			signed40 += cus[i]
		}
	}
	// C04: the provider's credit for the project in one epoch stays within the epoch allowance (downtime factor 1),
	// counting what earlier transactions were tracked for
	verif_assert("epoch-credit-within-allowance.epoch20", prior20+credited20 <= allowed)
	verif_assert("epoch-credit-within-allowance.epoch40", credited40 <= allowed)
	// bookkeeping after the cache flush: tracked CU accumulates every signed CU, every paid session is marked
	verif_assert("tracked-epoch-cu-accumulates.epoch20", w.trackedFor(20) == prior20+signed20)
	verif_assert("tracked-epoch-cu-accumulates.epoch40", w.trackedFor(40) == signed40)
	for i := 0; i < n; i++ {
		verif_assert("paid-session-is-marked", w.k.IsUniqueEpochSessionExists(w.ctx, epochs[i], verifRPAddr(1), "proj", "LAV1", sessions[i]))
	}
	verif_reach("accepted")
}

// VerifRPAuth: one relay that is valid except for the symbolically chosen corruptions.  It is credited only if it
// names the sender as provider, the current lava chain, an epoch that is not in the future and still in memory, is
// signed by the project's developer key, the spec is enabled and the provider is in the consumer's pairing.
// Every other relay fails the transaction with no credit, charge or usage bookkeeping by the handler.
func VerifRPAuth() {
	wrongProvider := verif_nondet_bool("relay.namesAnotherProvider")
	wrongLavaChain := verif_nondet_bool("relay.wrongLavaChainId")
	epochChoice := verif_nondet_range("relay.epoch", 0, 3) // 0: 20 (older than memory), 1: 40, 2: 100 (current), 3: 120 (future)
	signer := verif_nondet_range("relay.signer", 0, 3)     // 0: unverifiable signature, 2: developer key, 1/3: other accounts
	specFound := verif_nondet_bool("spec.found")
	specEnabled := verif_nondet_bool("spec.enabled")
	paired := verif_nondet_bool("providerInPairing")
	projectEnabled := verif_nondet_bool("project.enabled")
	cu := verif_nondet_u64("relay.cuSum")
	allowed := verif_nondet_u64("epochAllowedCU")
	verif_assume(cu > 0 && cu < 1<<40 && allowed > 0 && allowed < 1<<40)
	epoch := []int64{20, 40, 100, 120}[epochChoice]
	w := verifRPNewWorld(allowed, 40)
	w.specs.found, w.specs.enabled = specFound, specEnabled
	w.projects.project.Enabled = projectEnabled
	w.setPairing("LAV1", uint64(epoch), allowed, paired)
	r := verifRPRelay(epoch, 1, cu)
	if wrongProvider {
		r.Provider = verifRPAddr(5)
	}
	if wrongLavaChain {
		r.LavaChainId = "other"
	}
	if signer == 0 {
		r.Sig = []byte{0}
		if !verif_symbolic() {
			r.Sig = make([]byte, 65)
		}
	} else {
		verifRPSign(r, signer)
	}
	storeWritesBefore := 0
	if verif_symbolic() {
		storeWritesBefore = verifStoreByName(types.StoreKey).writes
	}
	msg := &types.MsgRelayPayment{Creator: verifRPAddr(1), Relays: []*types.RelaySession{r}}

	_, err := w.srv.RelayPayment(sdk.WrapSDKContext(w.ctx), msg)

	authentic := !wrongProvider && !wrongLavaChain && (epoch == 40 || epoch == 100) && signer == 2 && projectEnabled && specFound && specEnabled && paired
	credited := len(w.subs.tracked) > 0 || len(w.projects.charges) > 0 || len(w.subs.charges) > 0
	if err == nil {
		verif_assert("accepted-relay-is-authentic-and-paired", authentic)
		verif_assert("accepted-relay-credited-once", len(w.subs.tracked) == 1 && w.subs.tracked[0].cu <= cu && w.subs.tracked[0].provider == verifRPAddr(1))
		verif_reach("accepted")
		return
	}
	verif_assert("authentic-paired-relay-is-accepted", !authentic)
	verif_assert("rejected-relay-credits-and-charges-nothing", !credited)
	if wrongProvider || wrongLavaChain || epoch == 120 || epoch == 20 || signer != 2 || !projectEnabled {
		// rejected before the point after which the handler relies on the transaction rollback
		if verif_symbolic() {
			verif_assert("early-rejection-writes-nothing-to-the-store", verifStoreByName(types.StoreKey).writes == storeWritesBefore)
		}
		verif_assert("early-rejection-leaves-no-session-mark", !w.k.IsUniqueEpochSessionExists(w.ctx, uint64(epoch)-uint64(epoch)%20, verifRPAddr(1), "proj", "LAV1", 1))
	}
	verif_reach("rejected")
}

// VerifRPBadge: one payment transaction with n relays signed by a badge user (identity 4) on sessions 1..n of epoch
// 40, all carrying the same badge that the project's developer key (identity 2) signed.  The badge's user address,
// epoch, lava chain id and CU allocation are symbolic, as are the usage already recorded for (badge, provider) and
// the age of the badge relative to the chain's memory.
func VerifRPBadge() {
	n := verif_param("relays", 2)
	alloc := verif_nondet_u64("badge.CuAllocation")
	recorded := verif_nondet_bool("badgeUsage.recorded")
	used := verif_nondet_u64("badgeUsage.UsedCu")
	badgeForSigner := verif_nondet_bool("badge.addressIsRelaySigner")
	badgeEpoch := uint64(20 * verif_nondet_range("badge.epoch", 1, 2)) // 20 or 40 (the relays name 40)
	badgeChainOK := verif_nondet_bool("badge.lavaChainIdIsThisChain")
	badgeSignedByDeveloper := verif_nondet_bool("badge.signedByDeveloperKey")
	spans := []uint64{40, 80, 200}                                      // chain memory spans (blocks to save): 2, 4 or 10 epochs
	blocksToSave := spans[verif_nondet_range("blocksToSave.choice", 0, 2)] // usage record expiry = badge epoch + this
	allowed := verif_nondet_u64("epochAllowedCU")
	bits := uint(verif_param("cu_bits", 40))
	verif_assume(allowed > 0 && allowed < 1<<40 && used <= alloc)
	if bits < 64 {
		verif_assume(alloc < 1<<bits)
	}
	if !recorded {
		used = 0
	}
	w := verifRPNewWorld(allowed, 20)
	w.epochs.blocksToSave = blocksToSave
	if verif_nondet_bool("epochsToSave.changedAtBlock60") {
		// the memory span in force at the badge's epoch (20 or 40) differs from the one in force now (height 100)
		w.epochs.paramChangeAt, w.epochs.blocksToSaveNew = 60, spans[verif_nondet_range("blocksToSaveAfterChange.choice", 0, 2)]
	}
	w.k.badgeTimerStore = *timerstoretypes.NewTimerStore(w.k.storeKey, w.k.cdc, types.BadgeTimerStorePrefix).WithCallbackByBlockHeight(func(sdk.Context, []byte, []byte) {})
	w.srv = msgServer{Keeper: w.k}
	w.setPairing("LAV1", 40, allowed, true)
	badge := &types.Badge{CuAllocation: alloc, Epoch: badgeEpoch, Address: verifRPAddr(5), LavaChainId: "other"}
	if badgeForSigner {
		badge.Address = verifRPAddr(4)
	}
	if badgeChainOK {
		badge.LavaChainId = "lava"
	}
	if badgeSignedByDeveloper {
		verifRPSignBadge(badge, 2)
	} else {
		verifRPSignBadge(badge, 5)
	}
	usageKey := types.BadgeUsedCuKey(append([]byte{}, badge.ProjectSig...), verifRPAddr(1))
	if recorded {
		w.k.SetBadgeUsedCu(w.ctx, types.BadgeUsedCu{BadgeUsedCuKey: usageKey, UsedCu: used})
	}
	msg := &types.MsgRelayPayment{Creator: verifRPAddr(1)}
	cus := make([]uint64, n)
	var signedTotal uint64
	for i := 0; i < n; i++ {
		cus[i] = verif_nondet_u64("relay.cuSum")
		verif_assume(cus[i] > 0)
		if bits < 64 {
			verif_assume(cus[i] < 1<<bits)
		}
		signedTotal += cus[i]
		r := verifRPRelay(40, uint64(i+1), cus[i])
		r.Badge = badge
		verifRPSign(r, 4)
		msg.Relays = append(msg.Relays, r)
	}

	_, err := w.srv.RelayPayment(sdk.WrapSDKContext(w.ctx), msg)

	after, found := w.k.GetBadgeUsedCu(w.ctx, usageKey)
	if err != nil {
		verif_assert("failed-badge-transaction-credits-at-most-its-accepted-prefix", len(w.subs.tracked) <= n)
		verif_reach("rejected")
		return
	}
	// C18 / C05: the badge is honoured only for its own user, epoch and chain, signed by a developer of the project
	verif_assert("badge-honoured-only-for-its-user-epoch-and-chain", badgeForSigner && badgeEpoch == 40 && badgeChainOK)
	verif_assert("badge-honoured-only-when-signed-by-a-developer-key-of-the-project", badgeSignedByDeveloper)
	verif_assert("new-usage-record-only-while-not-expired", recorded || badgeEpoch+blocksToSave > 100)
	verif_assert("usage-recorded", found)
	verif_assert("badge-usage-grows-by-the-signed-cu", after.UsedCu == used+signedTotal)
	verif_assert("badge-usage-never-exceeds-allocation", used+signedTotal >= used && after.UsedCu <= alloc)
	verif_assert("every-badge-relay-credited-once", len(w.subs.tracked) == n && len(w.projects.charges) == n)
	if !recorded {
		verif_assert("usage-record-gets-its-expiry-timer", w.k.badgeTimerStore.HasTimerByBlockHeight(w.ctx, badgeEpoch+blocksToSave, usageKey))
	}
	verif_reach("accepted")
}
