package keeper

import (
	"cosmossdk.io/math"
	sdk "github.com/cosmos/cosmos-sdk/types"
	epochstoragetypes "github.com/lavanet/lava/v5/x/epochstorage/types"
	fixationtypes "github.com/lavanet/lava/v5/x/fixationstore/types"
	"github.com/lavanet/lava/v5/x/pairing/types"
	planstypes "github.com/lavanet/lava/v5/x/plans/types"
	spectypes "github.com/lavanet/lava/v5/x/spec/types"
	timerstoretypes "github.com/lavanet/lava/v5/x/timerstore/types"
)

func verifC01Req(apiInterface, addon string, ext string, mixed bool) planstypes.ChainRequirement {
	r := planstypes.ChainRequirement{Collection: spectypes.CollectionData{ApiInterface: apiInterface, Type: "POST", AddOn: addon}, Mixed: mixed}
	if ext != "" {
		r.Extensions = []string{ext}
	}
	return r
}

// VerifC01Pairing: the pairing of one consumer project is computed repeatedly from the same chain state under
// different map iteration orders: a reference run in insertion order, then a run in which one `range` over a map (any one
// of the ranges the computation executes) or all of them iterate in reverse order (the native replay repeats the computation
// 64 times under Go's randomized order).  The plan policy and the project's
// admin policy each carry an add-on/extension requirement for the chain (API interface, add-on, extension, mixed flag
// from small menus, so that they may share an add-on and differ in API interface); five providers support different
// service combinations, four are paired.  Every run must yield the same effective policy allowance and the same providers in the same order.
func VerifC01Pairing() {
	w := verifRPNewWorld(1000, 20)
	if !verif_symbolic() {
		ts := timerstoretypes.NewTimerStore(w.k.storeKey, w.k.cdc, types.ProviderQosStorePrefix)
		w.k.reputationsFS = *fixationtypes.NewFixationStore(w.k.storeKey, w.k.cdc, types.ProviderQosStorePrefix, ts, func(sdk.Context) uint64 { return 100 })
	}
	ifaces := []string{"rest", "grpc"}
	addons := []string{"debug", "trace"}
	planReq := verifC01Req("rest", "debug", "archive", verif_nondet_bool("planRequirement.mixed"))
	menus := verif_param("requirement_menus", 2) // 1: the admin requirement varies in API interface and mixed flag only
	adminReq := verifC01Req(ifaces[verif_nondet_range("adminRequirement.apiInterface", 0, 1)], addons[verif_nondet_range("adminRequirement.addon", 0, menus-1)],
		[]string{"archive", ""}[verif_nondet_range("adminRequirement.extension", 0, menus-1)], verif_nondet_bool("adminRequirement.mixed"))
	maxToPair := uint64(4) // four slots: with three mix filters every sub-filter gets a slot of its own
	w.subs.plan.PlanPolicy = planstypes.Policy{GeolocationProfile: 1, MaxProvidersToPair: maxToPair, EpochCuLimit: 1000, TotalCuLimit: 1 << 62,
		SelectedProvidersMode: planstypes.SELECTED_PROVIDERS_MODE_ALLOWED,
		ChainPolicies:         []planstypes.ChainPolicy{{ChainId: "LAV1", Requirements: []planstypes.ChainRequirement{planReq}}}}
	w.subs.plan.AllowedBuyers = nil
	w.projects.project.AdminPolicy = &planstypes.Policy{GeolocationProfile: 1, MaxProvidersToPair: maxToPair, EpochCuLimit: 1000, TotalCuLimit: 1 << 62,
		ChainPolicies: []planstypes.ChainPolicy{{ChainId: "LAV1", Requirements: []planstypes.ChainRequirement{adminReq}}}}

	names := []string{verifRPAddr(1), verifRPAddr(4), verifRPAddr(5), verifRPAddr(2), verifRPAddr(3)}
	// provider 1 serves the plan's combination, provider 2 the admin policy's, provider 3 both or neither, 4 and 5 the base APIs
	// provider 3: only the base APIs / both combinations / the plan's combination in full and, on a second endpoint, the
	// admin policy's API interface and add-on without its extension
	p3 := verif_nondet_range("provider3.services", 0, 2)
	both := p3 == 1
	eps := [][]epochstoragetypes.Endpoint{
		{{IPPORT: "a:1", Geolocation: 1, ApiInterfaces: []string{"rest"}, Addons: []string{"debug"}, Extensions: []string{"archive"}}},
		{{IPPORT: "b:1", Geolocation: 1, ApiInterfaces: []string{adminReq.Collection.ApiInterface}, Addons: []string{adminReq.Collection.AddOn}, Extensions: adminReq.Extensions}},
		{{IPPORT: "c:1", Geolocation: 1, ApiInterfaces: []string{"rest", "grpc"}}},
		{{IPPORT: "d:1", Geolocation: 1, ApiInterfaces: []string{"rest", "grpc"}}},
		{{IPPORT: "e:1", Geolocation: 1, ApiInterfaces: []string{"rest", "grpc"}}},
	}
	if both {
		eps[2][0].Addons = []string{"debug", "trace"}
		eps[2][0].Extensions = []string{"archive"}
	}
	if p3 == 2 {
		eps[2] = []epochstoragetypes.Endpoint{
			{IPPORT: "c:1", Geolocation: 1, ApiInterfaces: []string{"rest"}, Addons: []string{"debug"}, Extensions: []string{"archive"}},
			{IPPORT: "c:2", Geolocation: 1, ApiInterfaces: []string{adminReq.Collection.ApiInterface}, Addons: []string{adminReq.Collection.AddOn}},
		}
	}
	verifC02Entries = nil
	for i := 0; i < len(names); i++ {
		verifC02Entries = append(verifC02Entries, epochstoragetypes.StakeEntry{Address: names[i], Chain: "LAV1", Geolocation: 1, StakeAppliedBlock: 10, Endpoints: eps[i],
			Stake: sdk.Coin{Denom: "ulava", Amount: math.NewInt(int64(10 + i))}, DelegateTotal: sdk.Coin{Denom: "ulava", Amount: math.ZeroInt()}})
	}
	draws := []int64{verif_nondet_in("prng.draw", 0, 1<<40), verif_nondet_in("prng.draw", 0, 1<<40), verif_nondet_in("prng.draw", 0, 1<<40), verif_nondet_in("prng.draw", 0, 1<<40)}

	reps := 2
	if !verif_symbolic() {
		reps = 64
	}
	sites := verif_param("map_range_sites", 60)
	var first []string
	var firstCU uint64
	for r := 0; r < reps; r++ {
		if r == 0 {
			verif_maporder(0, 0) // reference run: insertion order
		} else {
			// second run: one map range (the site-th executed, any site) or all of them iterate in reverse order
			site := verif_nondet_range("reversedMapRange", -1, sites-1)
			if site < 0 {
				verif_maporder(1, 0)
			} else {
				verif_maporder(2, site)
			}
		}
		policy, cluster, err := w.k.GetProjectStrictestPolicy(w.ctx, w.projects.project, "LAV1", 40)
		verif_assert("effective-policy-computed", err == nil)
		if err != nil {
			return
		}
		verifC02SetDraws(draws)
		providers, allowedCU, _, perr := w.k.getPairingForClient(w.ctx, "LAV1", 40, policy, cluster, "proj", false)
		verif_assert("pairing-computed", perr == nil)
		addrs := make([]string, len(providers))
		for i := range providers {
			addrs[i] = providers[i].Address
		}
		if r == 0 {
			first, firstCU = addrs, allowedCU
			if verif_param("assert_sites", 0) == 1 {
				verif_assert("all-map-ranges-of-the-run-within-the-explored-sites", verif_maprange_count() <= sites)
			}
			continue
		}
		verif_assert("same-allowance-on-every-run", allowedCU == firstCU)
		verif_assert("same-number-of-paired-providers-on-every-run", len(addrs) == len(first))
		if len(addrs) == len(first) {
			for i := range addrs {
				verif_assert("same-paired-providers-in-the-same-order-on-every-run", addrs[i] == first[i])
			}
		}
	}
	if len(first) > 0 {
		verif_reach("paired")
	}
	verif_reach("end")
}
