package keeper

import (
	"cosmossdk.io/collections"
	"cosmossdk.io/math"
	"github.com/cosmos/cosmos-sdk/codec"
	paramtypes "github.com/cosmos/cosmos-sdk/x/params/types"
	collcompat "github.com/lavanet/lava/v5/utils/collcompat"
	storetypes "github.com/cosmos/cosmos-sdk/store/types"
	sdk "github.com/cosmos/cosmos-sdk/types"
	"github.com/lavanet/lava/v5/utils"
	commontypes "github.com/lavanet/lava/v5/utils/common/types"
	fixationtypes "github.com/lavanet/lava/v5/x/fixationstore/types"
	"github.com/lavanet/lava/v5/x/pairing/types"
	timerstoretypes "github.com/lavanet/lava/v5/x/timerstore/types"
)

// a Dec from an arbitrary non-negative 18-decimals integer below 2^bits
func verifC24Dec(name string, bits int) math.LegacyDec {
	return math.LegacyNewDecFromBigIntWithPrec(verif_nondet_ubig(name, bits), 18)
}

func verifC24Keeper() (Keeper, sdk.Context) {
	key := storetypes.NewKVStoreKey(types.StoreKey)
	ctx := verifCtx(100, 1700000000, key)
	cdc := verifCdc()
	ts := timerstoretypes.NewTimerStore(key, cdc, types.ProviderQosStorePrefix)
	k := Keeper{cdc: cdc, storeKey: key}
	k.reputationsFS = *fixationtypes.NewFixationStore(key, cdc, types.ProviderQosStorePrefix, ts, func(sdk.Context) uint64 { return 100 })
	return k, ctx
}

var verifC24Grid = []int64{0, 1, 1000000000000000000, 7250000000000000000, 300000000000000000, 4000000000000000000} // units of 10^-18; the quick tier uses the first four

// VerifC24Scale: the epoch-start scaling of n providers of one chain and cluster against a benchmark.  The benchmark is an
// arbitrary Dec; the providers' QoS scores are either picked from a grid spanning 18 orders of magnitude (mode 0: the
// benchmark stays symbolic) or arbitrary (mode 1: the benchmark comes from the grid), so that every division has a
// constant on one side.  Every stored pairing score lies in [0.5, 2]; a provider at or better than the benchmark gets
// the maximum; a better (lower) QoS score never yields a lower pairing score.
func VerifC24Scale() { verifC24Scale(0) }

// VerifC24ScaleAnyScore: the same with arbitrary QoS scores and the benchmark from the grid (mode 1).  Not registered:
// dividing by a symbolic score leaves the solvers at unknown (see checks/C24.json, outside_claim).
func VerifC24ScaleAnyScore() { verifC24Scale(1) }

func verifC24Scale(mode int) {
	n := verif_param("providers", 2)
	grid := verifC24Grid[:verif_param("grid", 6)]
	k, ctx := verifC24Keeper()
	var benchmark math.LegacyDec
	scores := make([]math.LegacyDec, n)
	if mode == 0 {
		benchmark = verifC24Dec("benchmark", 80)
		if verif_nondet_bool("benchmark.negative") {
			benchmark = benchmark.Neg()
		}
		for i := range scores {
			scores[i] = math.LegacyNewDecFromBigIntWithPrec(math.NewInt(grid[verif_nondet_range("provider.qosScore.grid", 0, len(grid)-1)]).BigInt(), 18)
		}
	} else {
		benchmark = math.LegacyNewDecFromBigIntWithPrec(math.NewInt(grid[verif_nondet_range("benchmark.grid", 0, len(grid)-1)]).BigInt(), 18)
		for i := range scores {
			scores[i] = verifC24Dec("provider.qosScore", 80)
		}
	}
	names := []string{"prov1", "prov2", "prov3"}
	in := make([]ProviderQosScore, n)
	for i := range in {
		// the stored form: a fraction (here over one) whose Resolve() is the score
		in[i] = ProviderQosScore{Provider: names[i], Score: types.QosScore{Score: types.Frac{Num: scores[i], Denom: math.LegacyOneDec()}, Variance: types.ZeroQosScore.Variance},
			Stake: sdk.NewCoin(commontypes.TokenDenom, math.NewInt(100))}
	}

	err := k.setReputationPairingScoreByBenchmark(ctx, "LAV1", "cluster", benchmark, in)

	if benchmark.IsNegative() {
		verif_assert("negative-benchmark-rejected", err != nil)
		for i := 0; i < n; i++ {
			_, found := k.GetReputationScore(ctx, "LAV1", "cluster", names[i])
			verif_assert("rejected-scaling-stores-nothing", !found)
		}
		verif_reach("rejected")
		return
	}
	verif_assert("scaling-succeeds", err == nil)
	got := make([]math.LegacyDec, n)
	for i := 0; i < n; i++ {
		ps, found := k.GetReputationScore(ctx, "LAV1", "cluster", names[i])
		verif_assert("pairing-score-stored", found)
		verif_assert("pairing-score-at-least-min", ps.GTE(types.MinReputationPairingScore))
		verif_assert("pairing-score-at-most-max", ps.LTE(types.MaxReputationPairingScore))
		if scores[i].LTE(benchmark) {
			verif_assert("at-or-better-than-benchmark-gets-max", ps.Equal(types.MaxReputationPairingScore))
		}
		got[i] = ps
	}
	for i := 0; i < n; i++ {
		for j := 0; j < n; j++ {
			if scores[i].LT(scores[j]) {
				verif_assert("better-qos-score-never-gets-lower-pairing-score", got[i].GTE(got[j]))
			}
			if scores[i].Equal(scores[j]) {
				verif_assert("equal-qos-scores-get-equal-pairing-scores", got[i].Equal(got[j]))
			}
		}
	}
	verif_reach("scaled")
}

// stub of the symbolic run: the decay factor e^(-dt/halfLife) is an arbitrary Dec in [0, 1] (VerifC24DecayFactor checks
// that contract of the real function on a grid of time gaps)
func verifC24DecayFactor(numerator, denominator int64, negative bool) math.LegacyDec {
	d := verifC24Dec("decayFactor", 61)
	verif_assume(d.LTE(math.LegacyOneDec()))
	return d
}

func verifC24Frac(name string, bits int) types.Frac {
	f := types.Frac{Num: verifC24Dec(name+".num", bits), Denom: verifC24Dec(name+".denom", bits)}
	verif_assume(f.Denom.IsPositive())
	return f
}

// VerifC24Decay: a valid stored reputation (arbitrary non-negative numerators, positive denominators) is decayed over an
// arbitrary time gap and merged with the epoch's score.  The result is a valid reputation again (so the epoch-start pass
// does not abort), its score fraction resolves, and the resolved score is non-negative.
func VerifC24Decay() {
	r := types.Reputation{
		Score:           types.QosScore{Score: verifC24Frac("score", 70), Variance: verifC24Frac("variance", 70)},
		EpochScore:      types.QosScore{Score: verifC24Frac("epochScore", 70), Variance: verifC24Frac("epochVariance", 70)},
		CreationTime:    1600000000,
		TimeLastUpdated: 1600000000 + verif_nondet_in("lastUpdatedAfterCreation", 0, 90000000),
		Stake:           sdk.NewCoin(commontypes.TokenDenom, math.NewInt(100)),
	}
	verif_assert("precondition-valid-reputation", r.Validate())
	now := r.TimeLastUpdated + verif_nondet_in("secondsSinceLastUpdate", 0, 4000000000)
	halfLife := int64(types.DefaultReputationHalfLifeFactor)
	out, err := r.ApplyTimeDecayAndUpdateScore(halfLife, now)
	verif_assert("decay-keeps-reputation-valid", err == nil && out.Validate())
	if err == nil {
		verif_assert("decayed-score-not-below-epoch-contribution", out.Score.Score.Num.GTE(r.EpochScore.Score.Num) && out.Score.Score.Denom.GTE(r.EpochScore.Score.Denom))
		verif_assert("decayed-score-not-above-undecayed-sum", out.Score.Score.Num.LTE(r.Score.Score.Num.Add(r.EpochScore.Score.Num)))
	}
	verif_reach("end")
}

// VerifC24DecayFactor: the real decay factor on a grid of time gaps (0 s .. 100 years) with the default half life lies
// in [0, 1] and does not grow with the gap (concrete executions; this is the contract the stub above assumes).
func VerifC24DecayFactor() {
	gaps := []int64{0, 1, 600, 86400, 2592000, 31104000, 311040000, 3110400000}
	prev := math.LegacyOneDec()
	for _, g := range gaps {
		d := utils.NaturalBaseExponentFraction(g, int64(types.DefaultReputationHalfLifeFactor), true)
		verif_assert("decay-factor-in-unit-interval", !d.IsNegative() && d.LTE(math.LegacyOneDec()))
		verif_assert("decay-factor-does-not-grow-with-the-gap", d.LTE(prev))
		prev = d
	}
	verif_reach("end")
}

// stub of the symbolic run: ApproxSqrt returns an arbitrary non-negative Dec (Newton iteration is outside the encoding)
func verifC24Sqrt(d math.LegacyDec) (math.LegacyDec, error) {
	return verifC24Dec("sqrt", 70), nil
}

// VerifC24Update: folding one QoS report (score >= 0, weight > 0, truncated to the variance band or not) into a valid
// epoch score keeps it valid: numerators non-negative, denominators positive and growing by the weight.
func VerifC24Update() {
	qs := types.QosScore{Score: verifC24Frac("score", 70), Variance: verifC24Frac("variance", 70)}
	score := verifC24Dec("report.score", 70)
	weight := verif_nondet_in("report.weight", 1, 1<<40)
	truncate := verif_nondet_bool("truncate")
	before := qs
	qs.Update(score, truncate, weight)
	verif_assert("updated-score-valid", qs.Validate())
	verif_assert("denominators-grow-by-the-weight", qs.Score.Denom.Equal(before.Score.Denom.Add(math.LegacyNewDec(weight))) && qs.Variance.Denom.Equal(before.Variance.Denom.Add(math.LegacyNewDec(weight))))
	verif_assert("numerators-do-not-shrink", qs.Score.Num.GTE(before.Score.Num) && qs.Variance.Num.GTE(before.Variance.Num))
	verif_reach("end")
}

// stub of the symbolic run (paramstore); the native replay uses a real params subspace with the default params
func verifC24HalfLife(k Keeper, ctx sdk.Context) uint64 { return types.DefaultReputationHalfLifeFactor }

// VerifC24EpochPass: the whole epoch-start pass (UpdateAllReputationQosScore) over the real reputations collection and the
// real reputation fixation store.  Three providers of one chain and cluster hold QoS scores from the grid and arbitrary
// stakes; the third may have had no traffic this epoch (zero epoch score).  After the pass every provider that has a
// pairing score at this block has it in [0.5, 2], ordered like the QoS scores, and the best QoS score gets the maximum;
// the providers with traffic all have one, their epoch scores are reset, the update time recorded and their reputation
// score resolves (to at most the epoch's weighted mean: the zero history carries the smallest positive weight); every stored reputation is still valid.
func VerifC24EpochPass() {
	k, ctx := verifC24Keeper()
	sb := collections.NewSchemaBuilder(collcompat.NewKVStoreService(k.storeKey))
	k.reputations = collections.NewMap(sb, types.ReputationPrefix, "reputations",
		collections.TripleKeyCodec(collections.StringKey, collections.StringKey, collections.StringKey),
		collcompat.ProtoValue[types.Reputation](k.cdc))
	if !verif_symbolic() {
		tkey := storetypes.NewTransientStoreKey("transient_pairing_params")
		ctx = verifCtx(100, 1700000000, k.storeKey, tkey)
		k.paramstore = paramtypes.NewSubspace(k.cdc, codec.NewLegacyAmino(), k.storeKey, tkey, "pairing").WithKeyTable(types.ParamKeyTable())
		k.SetParams(ctx, types.DefaultParams())
	}
	now := ctx.BlockTime().UTC().Unix()
	grid := verifC24Grid[:verif_param("grid", 4)]
	names := []string{"prov1", "prov2", "prov3"}
	scores := make([]math.LegacyDec, 3)
	stakes := make([]math.Int, 3)
	active := []bool{true, true, verif_nondet_bool("prov3.hadTraffic")}
	for i := range names {
		scores[i] = math.LegacyNewDecFromBigIntWithPrec(math.NewInt(grid[verif_nondet_range("provider.qosScore.grid", 0, len(grid)-1)]).BigInt(), 18)
		stakes[i] = math.NewInt(verif_nondet_in("provider.stake", 1, 1<<40))
		r := types.Reputation{Score: types.ZeroQosScore, EpochScore: types.ZeroQosScore, CreationTime: now - 1000, TimeLastUpdated: now,
			Stake: sdk.NewCoin(commontypes.TokenDenom, stakes[i])}
		if active[i] {
			// this epoch's reports: total weight 2, weighted score sum 2*score (so the reputation score resolves to score)
			r.EpochScore = types.QosScore{Score: types.Frac{Num: scores[i].MulInt64(2), Denom: math.LegacyNewDec(2)}, Variance: types.Frac{Num: math.LegacyZeroDec(), Denom: math.LegacyNewDec(2)}}
		}
		k.SetReputation(ctx, "LAV1", "cluster", names[i], r)
	}

	k.UpdateAllReputationQosScore(ctx)

	// a provider without traffic this epoch has the QoS score zero (nothing but zero-weight history); whether the pass
	// updates it or skips it is not part of the property - it is compared like any other provider when it has a score
	eff := make([]math.LegacyDec, 3)
	got := make([]math.LegacyDec, 3)
	has := make([]bool, 3)
	for i := range names {
		eff[i] = scores[i]
		if !active[i] {
			eff[i] = math.LegacyZeroDec()
		}
		ps, found := k.GetReputationScore(ctx, "LAV1", "cluster", names[i])
		r, rfound := k.GetReputation(ctx, "LAV1", "cluster", names[i])
		verif_assert("reputation-kept-and-valid", rfound && r.Validate())
		if active[i] {
			verif_assert("pairing-score-stored", found)
			verif_assert("epoch-score-reset-and-time-recorded", r.EpochScore.Equal(types.ZeroQosScore) && r.TimeLastUpdated == now)
			sc, rerr := r.Score.Score.Resolve()
			verif_assert("reputation-score-resolves-to-at-most-the-epochs-mean", rerr == nil && !sc.IsNegative() && sc.LTE(scores[i]))
		}
		if found {
			verif_assert("pairing-score-at-least-min", ps.GTE(types.MinReputationPairingScore))
			verif_assert("pairing-score-at-most-max", ps.LTE(types.MaxReputationPairingScore))
		}
		got[i], has[i] = ps, found
	}
	for i := range names {
		best := has[i]
		for j := range names {
			if has[i] && has[j] && eff[i].LT(eff[j]) {
				verif_assert("better-qos-score-never-gets-lower-pairing-score", got[i].GTE(got[j]))
			}
			if has[j] && eff[j].LT(eff[i]) {
				best = false
			}
		}
		if best {
			verif_assert("best-qos-score-gets-the-maximum", got[i].Equal(types.MaxReputationPairingScore))
		}
	}
	if !active[2] {
		verif_reach("skipped")
	}
	verif_reach("end")
}

// VerifC24DecayGrid: the same as VerifC24Decay with the real decay factor: (time gap, half life) from a grid that drives
// e^(-gap/halfLife) to 1, 1/e, about 1e-18 (the smallest positive Dec) and 0; numerators and denominators stay arbitrary.
// Unlike the stubbed harness this one replays natively as it is.
func VerifC24DecayGrid() {
	grid := [][2]int64{{0, int64(types.DefaultReputationHalfLifeFactor)}, {int64(types.DefaultReputationHalfLifeFactor), int64(types.DefaultReputationHalfLifeFactor)}, {1, 1}, {41, 1}, {50, 1}}
	g := grid[verif_nondet_range("gapAndHalfLife", 0, len(grid)-1)]
	r := types.Reputation{
		Score:           types.QosScore{Score: verifC24Frac("score", 70), Variance: verifC24Frac("variance", 70)},
		EpochScore:      types.QosScore{Score: verifC24Frac("epochScore", 70), Variance: verifC24Frac("epochVariance", 70)},
		CreationTime:    1600000000,
		TimeLastUpdated: 1600000000,
		Stake:           sdk.NewCoin(commontypes.TokenDenom, math.NewInt(100)),
	}
	verif_assert("precondition-valid-reputation", r.Validate())
	out, err := r.ApplyTimeDecayAndUpdateScore(g[1], r.TimeLastUpdated+g[0])
	verif_assert("decay-keeps-reputation-valid", err == nil && out.Validate())
	if err == nil {
		verif_assert("decayed-score-not-below-epoch-contribution", out.Score.Score.Num.GTE(r.EpochScore.Score.Num) && out.Score.Score.Denom.GTE(r.EpochScore.Score.Denom) &&
			out.Score.Variance.Num.GTE(r.EpochScore.Variance.Num) && out.Score.Variance.Denom.GTE(r.EpochScore.Variance.Denom))
		verif_assert("decayed-score-not-above-undecayed-sum", out.Score.Score.Num.LTE(r.Score.Score.Num.Add(r.EpochScore.Score.Num)) && out.Score.Score.Denom.LTE(r.Score.Score.Denom.Add(r.EpochScore.Score.Denom)) &&
			out.Score.Variance.Num.LTE(r.Score.Variance.Num.Add(r.EpochScore.Variance.Num)) && out.Score.Variance.Denom.LTE(r.Score.Variance.Denom.Add(r.EpochScore.Variance.Denom)))
	}
	verif_reach("end")
}
