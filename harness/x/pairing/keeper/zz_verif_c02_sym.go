package keeper

import (
	mathrand "math/rand"
)

var verifC02Draws []int64
var verifC02Next int

func verifC02SetDraws(d []int64) { verifC02Draws, verifC02Next = d, 0 }

func verifC02New(data []byte) *mathrand.Rand { return nil }

func verifC02Int63n(r *mathrand.Rand, n int64) int64 {
	d := verifC02Draws[verifC02Next%len(verifC02Draws)]
	verifC02Next++
	verif_assume(d >= 0 && d < n)
	return d
}
