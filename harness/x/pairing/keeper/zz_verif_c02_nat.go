package keeper

import (
	lavarand "github.com/lavanet/lava/v5/utils/rand"
)

type verifC02Source struct {
	d []int64
	i int
}

func (s *verifC02Source) Int63() int64 {
	v := s.d[s.i%len(s.d)]
	s.i++
	return v
}
func (s *verifC02Source) Seed(int64) {}

func verifC02SetDraws(d []int64) { lavarand.VerifSource = &verifC02Source{d: d} }
