package scores

import (
	mathrand "math/rand"
)

// symbolic run: the PRNG is a stub that hands out the harness's symbolic draws (any value in range)
var verifC40Draws []int64
var verifC40Next int

func verifC40SetDraws(d []int64) { verifC40Draws, verifC40Next = d, 0 }

func verifC40New(data []byte) *mathrand.Rand { return nil }

func verifC40Int63n(r *mathrand.Rand, n int64) int64 {
	d := verifC40Draws[verifC40Next]
	verifC40Next++
	verif_assume(d >= 0 && d < n) // Int63n's contract: a value in [0, n)
	return d
}
