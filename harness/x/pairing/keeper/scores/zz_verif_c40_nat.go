package scores

import (
	lavarand "github.com/lavanet/lava/v5/utils/rand"
)

// native replay: utils/rand/rand.go is overlaid by a copy with a VerifSource hook; the source returns the model's
// draws, which math/rand's real Int63n maps to themselves (they are below n)
type verifC40Source struct {
	d []int64
	i int
}

func (s *verifC40Source) Int63() int64 {
	v := s.d[s.i%len(s.d)]
	s.i++
	return v
}
func (s *verifC40Source) Seed(int64) {}

func verifC40SetDraws(d []int64) { lavarand.VerifSource = &verifC40Source{d: d} }
