package scores

import (
	"cosmossdk.io/math"
	sdk "github.com/cosmos/cosmos-sdk/types"
	epochstoragetypes "github.com/lavanet/lava/v5/x/epochstorage/types"
	planstypes "github.com/lavanet/lava/v5/x/plans/types"
)

// VerifC40Pick: n providers with symbolic stakes and geolocations (US-Center, Europe, or both) are scored for a slot
// that asks for US-Center (real StakeReq / GeoReq / CalcPairingScore) and k slots are filled by the real
// PickProviders with arbitrary PRNG draws.  The score is stake x geo score; a provider is picked for a draw value
// exactly when the value falls into its interval of the rounded cumulative scores (reverse order, as the code
// walks), so the number of draw values selecting a provider is its score up to rounding and is at least one for a
// score of at least one; a picked provider is never picked again.
func VerifC40Pick() {
	n := verif_param("providers", 3)
	k := verif_param("slots", 2)
	stakes := make([]int64, n)
	geos := make([]int32, n)
	scores := make([]*PairingScore, n)
	for i := 0; i < n; i++ {
		stakes[i] = int64(verif_nondet_in("provider.stake", 1, 1<<20))
		geos[i] = int32(verif_nondet_range("provider.geolocation", 1, 3)) // 1 = USC, 2 = EU, 3 = both
		entry := &epochstoragetypes.StakeEntry{Address: string(rune('a' + i)), Geolocation: geos[i],
			Stake: sdk.Coin{Denom: "ulava", Amount: math.NewInt(stakes[i])}, DelegateTotal: sdk.Coin{Denom: "ulava", Amount: math.ZeroInt()}}
		scores[i] = NewPairingScore(entry, math.LegacyZeroDec())
	}
	slot := NewPairingSlot(0)
	slot.Reqs = map[string]ScoreReq{stakeReqName: &StakeReq{}, geoReqName: GeoReq{Geo: int32(planstypes.Geolocation_USC)}}
	err := CalcPairingScore(scores, GetStrategy(), slot)
	verif_assert("scores-computed", err == nil)
	// score = stake x geo cost (10000 when the provider is in the requested geolocation, 10000/170 for Europe -> US-Center)
	near := math.LegacyNewDec(maxGeoLatency)
	far := math.LegacyNewDec(maxGeoLatency).QuoInt64(170)
	for i := 0; i < n; i++ {
		want := math.LegacyNewDec(stakes[i]).Mul(far)
		if geos[i]&1 != 0 {
			want = math.LegacyNewDec(stakes[i]).Mul(near)
		}
		verif_assert("score-is-stake-times-geo-score", scores[i].Score.Equal(want))
	}

	draws := make([]int64, k)
	for j := 0; j < k; j++ {
		draws[j] = verif_nondet_i64("prng.draw")
	}
	verifC40SetDraws(draws)
	groupIndexes := make([]int, k)
	for j := range groupIndexes {
		groupIndexes[j] = j
	}
	snapshot := make([]math.LegacyDec, n)
	for i := 0; i < n; i++ {
		snapshot[i] = scores[i].Score
	}

	picked := PickProviders(sdk.Context{}, scores, groupIndexes, []byte("epoch-hash"))

	// oracle: walk the providers still in the pool from the last to the first, accumulating the scores; draw d selects
	// the first provider whose rounded cumulative score reaches d+1
	taken := make([]bool, n)
	want := k
	if n < k {
		want = n
	}
	verif_assert("one-provider-per-slot-while-providers-remain", len(picked) == want)
	for j := 0; j < len(picked); j++ {
		sum := math.LegacyZeroDec()
		prev := int64(0)
		choice := -1
		for i := n - 1; i >= 0; i-- {
			if taken[i] {
				continue
			}
			sum = sum.Add(snapshot[i])
			hi := sum.RoundInt64()
			verif_assert("every-provider-with-score-at-least-one-has-a-draw-selecting-it", hi-prev >= 1)
			if choice < 0 && draws[j]+1 <= hi {
				choice = i
			}
			prev = hi
		}
		verif_assert("draw-selects-the-provider-whose-cumulative-score-interval-contains-it", choice >= 0 && picked[j].Address == string(rune('a'+choice)))
		if choice >= 0 {
			taken[choice] = true
		}
	}
	for a := 0; a < len(picked); a++ {
		for b := a + 1; b < len(picked); b++ {
			verif_assert("no-provider-picked-twice", picked[a].Address != picked[b].Address)
		}
	}
	verif_reach("end")
}

// VerifC40SlotGroups: a policy with two geolocations (US-Center and Europe) and two slots gives two slot groups; the
// keeper re-scores the providers for each group on the difference to the previous group (CalcSlots, GroupSlots,
// Subtract, CalcPairingScore - the loop of getPairingForClient).  For every group the score every provider carries
// into the draw is its stake times its geo score for that group's geolocation.
func VerifC40SlotGroups() {
	n := verif_param("providers", 2)
	stakes := make([]int64, n)
	geos := make([]int32, n)
	scores := make([]*PairingScore, n)
	for i := 0; i < n; i++ {
		stakes[i] = int64(verif_nondet_in("provider.stake", 1, 1<<20))
		geos[i] = int32(verif_nondet_range("provider.geolocation", 1, 3)) // 1 = USC, 2 = EU, 3 = both
		entry := &epochstoragetypes.StakeEntry{Address: string(rune('a' + i)), Geolocation: geos[i],
			Stake: sdk.Coin{Denom: "ulava", Amount: math.NewInt(stakes[i])}, DelegateTotal: sdk.Coin{Denom: "ulava", Amount: math.ZeroInt()}}
		scores[i] = NewPairingScore(entry, math.LegacyZeroDec())
	}
	policy := &planstypes.Policy{GeolocationProfile: int32(planstypes.Geolocation_USC) | int32(planstypes.Geolocation_EU), MaxProvidersToPair: 2}
	slots := CalcSlots(policy)
	groups := GroupSlots(slots)
	verif_assert("one-slot-group-per-geolocation", len(groups) == 2)
	near := math.LegacyNewDec(maxGeoLatency)
	farUSCfromEU := math.LegacyNewDec(maxGeoLatency).QuoInt64(170) // provider in Europe, slot asks for US-Center
	farEUfromUSC := math.LegacyNewDec(maxGeoLatency).QuoInt64(170) // provider in US-Center, slot asks for Europe
	prev := NewPairingSlotGroup(NewPairingSlot(-1))
	for g, group := range groups {
		diff := group.Subtract(prev)
		err := CalcPairingScore(scores, GetStrategy(), diff)
		verif_assert("group-scores-computed", err == nil)
		want := int32(planstypes.Geolocation_USC)
		far := farUSCfromEU
		if g == 1 {
			want, far = int32(planstypes.Geolocation_EU), farEUfromUSC
		}
		for i := 0; i < n; i++ {
			cost := far
			if geos[i]&want != 0 {
				cost = near
			}
			verif_assert("score-carried-into-the-draw-is-stake-times-geo-score-of-the-group", scores[i].Score.Equal(math.LegacyNewDec(stakes[i]).Mul(cost)))
		}
		prev = group
	}
	verif_reach("end")
}
