package keeper

import (
	sdk "github.com/cosmos/cosmos-sdk/types"
	"github.com/lavanet/lava/v5/x/pairing/types"
	planstypes "github.com/lavanet/lava/v5/x/plans/types"
	projectstypes "github.com/lavanet/lava/v5/x/projects/types"
	subscriptiontypes "github.com/lavanet/lava/v5/x/subscription/types"
)

// model keepers: return the symbolic project / plan / subscription / downtime factor built by the harness.
type verifC04Projects struct {
	types.ProjectsKeeper
	p projectstypes.Project
}

func (m verifC04Projects) GetProjectForDeveloper(ctx sdk.Context, developerKey string, blockHeight uint64) (projectstypes.Project, error) {
	return m.p, nil
}

type verifC04Subs struct {
	types.SubscriptionKeeper
	plan planstypes.Plan
	sub  subscriptiontypes.Subscription
}

func (m verifC04Subs) GetPlanFromSubscription(ctx sdk.Context, consumer string, block uint64) (planstypes.Plan, error) {
	return m.plan, nil
}

func (m verifC04Subs) GetSubscription(ctx sdk.Context, consumer string) (subscriptiontypes.Subscription, bool) {
	return m.sub, true
}

type verifC04Downtime struct {
	types.DowntimeKeeper
	f uint64
}

func (m verifC04Downtime) GetDowntimeFactor(ctx sdk.Context, epochStartBlock uint64) uint64 { return m.f }

func verifC04Policy(name string) *planstypes.Policy {
	if !verif_nondet_bool(name + ".present") {
		return nil
	}
	return &planstypes.Policy{EpochCuLimit: verif_nondet_u64(name + ".EpochCuLimit"), TotalCuLimit: verif_nondet_u64(name + ".TotalCuLimit")}
}

// VerifC04Enforce: one accepted relay payment, arbitrary policies / usage / downtime factor.
//   relayCU  = CU sum the consumer signed in this relay
//   prior    = CU already tracked for (project, provider, epoch) before this relay (sum of earlier relays' signed CU)
//   total    = prior + relayCU, what AddEpochPayment returns and RelayPayment passes on
//   allowed  = per-epoch allowance RelayPayment got from ValidatePairingForClient
func VerifC04Enforce() {
	relayCU := verif_nondet_u64("relayCU")
	prior := verif_nondet_u64("prior")
	allowed := verif_nondet_u64("epochAllowedCU")
	factor := verif_nondet_u64("downtimeFactor")
	usedCu := verif_nondet_u64("project.UsedCu")
	monthLeft := verif_nondet_u64("sub.MonthCuLeft")
	verif_assume(relayCU < 1<<62 && prior < 1<<62) // AddEpochPayment's sum does not wrap
	verif_assume(factor >= 1 && factor < 1<<16)    // GetDowntimeFactor = downtime/epochDuration + 1
	verif_assume(allowed < 1<<47)                  // allowance * factor does not wrap
	planPolicy := planstypes.Policy{EpochCuLimit: verif_nondet_u64("plan.EpochCuLimit"), TotalCuLimit: verif_nondet_u64("plan.TotalCuLimit")}
	// a plan always carries both limits (Plan.ValidatePlan / Policy.ValidateBasicPolicy reject 0)
	verif_assume(planPolicy.EpochCuLimit > 0 && planPolicy.TotalCuLimit > 0)
	admin := verifC04Policy("admin")
	subp := verifC04Policy("subscription")
	project := projectstypes.Project{Index: "proj", Subscription: "sub", Enabled: true, UsedCu: usedCu, AdminPolicy: admin, SubscriptionPolicy: subp}
	k := Keeper{
		projectsKeeper:     verifC04Projects{p: project},
		subscriptionKeeper: verifC04Subs{plan: planstypes.Plan{Index: "plan", PlanPolicy: planPolicy}, sub: subscriptiontypes.Subscription{Consumer: "sub", MonthCuLeft: monthLeft}},
		downtimeKeeper:     verifC04Downtime{f: factor},
	}
	total := prior + relayCU

	rewarded, err := k.EnforceClientCUsUsageInEpoch(sdk.Context{}, relayCU, allowed, total, sdk.AccAddress("consumer____________"), "LAV1", 100)

	if err != nil {
		verif_assert("rejected-relay-credits-nothing", rewarded == 0)
		verif_reach("rejected")
		return
	}
	// known findings (see known_findings.json): the total-limit branch returns effectiveTotal - UsedCu without
	// looking at the relay's CU or the epoch allowance
	effTotal := planPolicy.TotalCuLimit
	if admin != nil && admin.TotalCuLimit != 0 && admin.TotalCuLimit < effTotal {
		effTotal = admin.TotalCuLimit
	}
	if subp != nil && subp.TotalCuLimit != 0 && subp.TotalCuLimit < effTotal {
		effTotal = subp.TotalCuLimit
	}
	verif_known("C04-total-branch", total >= effTotal && rewarded == effTotal-usedCu)
	verif_assert("credited-at-most-signed-cu", rewarded <= relayCU)
	if prior <= allowed*factor {
		verif_assert("epoch-credit-within-allowance-times-downtime-factor", prior+rewarded <= allowed*factor)
	} else {
		verif_assert("nothing-credited-beyond-epoch-allowance", rewarded == 0)
	}
	if rewarded == relayCU && relayCU > 0 {
		verif_reach("full")
	}
	if rewarded < relayCU {
		verif_reach("partial")
	}
	verif_observe("rewarded", rewarded)
}

// VerifC04History: k relays of one consumer to one provider in one epoch, starting from a fresh project
// (nothing used, nothing tracked), with the bookkeeping RelayPayment does between them: the tracked epoch CU grows
// by the signed CU, the project's used CU grows by the credited CU. Only the plan policy is present.
func VerifC04History() {
	allowed := verif_nondet_u64("epochAllowedCU")
	totalLimit := verif_nondet_u64("plan.TotalCuLimit")
	monthLeft := verif_nondet_u64("sub.MonthCuLeft")
	verif_assume(allowed > 0 && allowed < 1<<40 && totalLimit > 0 && totalLimit < 1<<40 && monthLeft > 0)
	planPolicy := planstypes.Policy{EpochCuLimit: allowed, TotalCuLimit: totalLimit}
	k := verif_param("relays", 2)
	var tracked, used, credited uint64
	for i := 0; i < k; i++ {
		relayCU := verif_nondet_u64("relayCU")
		verif_assume(relayCU > 0 && relayCU < 1<<40)
		project := projectstypes.Project{Index: "proj", Subscription: "sub", Enabled: true, UsedCu: used}
		kp := Keeper{
			projectsKeeper:     verifC04Projects{p: project},
			subscriptionKeeper: verifC04Subs{plan: planstypes.Plan{Index: "plan", PlanPolicy: planPolicy}, sub: subscriptiontypes.Subscription{Consumer: "sub", MonthCuLeft: monthLeft}},
			downtimeKeeper:     verifC04Downtime{f: 1},
		}
		tracked += relayCU
		rewarded, err := kp.EnforceClientCUsUsageInEpoch(sdk.Context{}, relayCU, allowed, tracked, sdk.AccAddress("consumer____________"), "LAV1", 100)
		if err != nil {
			verif_reach("rejected")
			return
		}
		verif_known("C04-total-branch-history", tracked >= totalLimit)
		verif_assert("history-credited-at-most-signed-cu", rewarded <= relayCU)
		used += rewarded
		credited += rewarded
		verif_assert("history-epoch-credit-within-allowance", credited <= allowed)
	}
	verif_reach("end")
}
