package keeper

import (
	"time"

	"github.com/cosmos/cosmos-sdk/codec"
	storetypes "github.com/cosmos/cosmos-sdk/store/types"
	sdk "github.com/cosmos/cosmos-sdk/types"
	paramtypes "github.com/cosmos/cosmos-sdk/x/params/types"
	v1 "github.com/lavanet/lava/v5/x/downtime/v1"
	epochstoragetypes "github.com/lavanet/lava/v5/x/epochstorage/types"
	"github.com/lavanet/lava/v5/x/pairing/types"
	planstypes "github.com/lavanet/lava/v5/x/plans/types"
)

// current stake entries (all chains) of the model epochstorage keeper, and what the punishment pass stored back
var verifC19Current []epochstoragetypes.StakeEntry
var verifC19Stored []epochstoragetypes.StakeEntry

func (m *verifRPEpochs) GetPreviousEpochStartForBlock(ctx sdk.Context, block uint64) (uint64, error) {
	if block < verifRPEpochBlocks {
		return 0, types.FreezeStakeEntryNotFoundError
	}
	return block - block%verifRPEpochBlocks - verifRPEpochBlocks, nil
}
func (m *verifRPEpochs) GetAllStakeEntriesCurrent(ctx sdk.Context) []epochstoragetypes.StakeEntry {
	out := make([]epochstoragetypes.StakeEntry, len(verifC19Current))
	copy(out, verifC19Current)
	return out
}
func (m *verifRPEpochs) GetStakeEntryCurrent(ctx sdk.Context, chainID string, provider string) (epochstoragetypes.StakeEntry, bool) {
	for _, e := range verifC19Current {
		if e.Chain == chainID && e.Address == provider {
			return e, true
		}
	}
	return epochstoragetypes.StakeEntry{}, false
}
func (m *verifRPEpochs) SetStakeEntryCurrent(ctx sdk.Context, entry epochstoragetypes.StakeEntry) {
	verifC19Stored = append(verifC19Stored, entry)
	for i := range verifC19Current {
		if verifC19Current[i].Chain == entry.Chain && verifC19Current[i].Address == entry.Address {
			verifC19Current[i] = entry
		}
	}
}
func (m *verifRPEpochs) EpochBlocksRaw(ctx sdk.Context) uint64 { return verifRPEpochBlocks }

type verifC19Plans struct {
	types.PlanKeeper
	maxProviders uint64
}

func (m verifC19Plans) GetAllPlanIndices(ctx sdk.Context) []string { return []string{"plan"} }
func (m verifC19Plans) FindPlan(ctx sdk.Context, index string, block uint64) (planstypes.Plan, bool) {
	return planstypes.Plan{Index: index, PlanPolicy: planstypes.Policy{MaxProvidersToPair: m.maxProviders}}, true
}

func (verifRPDowntime) GetParams(ctx sdk.Context) v1.Params {
	return v1.Params{DowntimeDuration: 30 * time.Second, EpochDuration: 10 * time.Minute}
}

// stub of the symbolic run (paramstore); native replay: real params subspace with the default params
func verifC19RecommendedEpochs(k Keeper, ctx sdk.Context) uint64 {
	return types.DefaultRecommendedEpochNumToCollectPayment
}

// VerifC19Punish: the epoch-start pass over unresponsiveness complaints.  Chain LAV1 has three providers (symbolic
// stake age, earlier jails, frozen or not); the first one has complaint records in the two epochs of the complaint
// window and serviced-CU records there (all CU symbolic).  After the pass: the provider is jailed only if its
// complaints exceed four times the CU it serviced (mathematically) and it has enough stake history (or was jailed
// before), never if that would leave fewer unfrozen providers than the smallest plan pairs; a jailed provider's
// counted complaint records are gone (no double punishment); the third jail within a day freezes with a one-day jail.
func VerifC19Punish() {
	w := verifRPNewWorld(1000, 20)
	w.epochs.earliest = 0
	w.epochs.current = 400 // epoch 400 of a chain with 20-block epochs: history needed = (3 + 8) epochs back = block 180
	if verif_symbolic() {
		w.ctx = w.ctx.WithBlockHeight(400)
	} else {
		tkey := storetypes.NewTransientStoreKey("transient_pairing_params")
		w.ctx = verifCtx(400, 1700000000, w.k.storeKey, tkey)
		w.k.paramstore = paramtypes.NewSubspace(w.k.cdc, codec.NewLegacyAmino(), w.k.storeKey, tkey, "pairing").WithKeyTable(types.ParamKeyTable())
		w.k.SetParams(w.ctx, types.DefaultParams())
	}
	plans := verifC19Plans{maxProviders: uint64(verif_nondet_range("smallestPlan.MaxProvidersToPair", 1, 3))}
	w.k.planKeeper = plans
	now := w.ctx.BlockTime().UTC().Unix()
	names := []string{verifRPAddr(1), verifRPAddr(4), verifRPAddr(5)}
	verifC19Current, verifC19Stored = nil, nil
	unfrozenBefore := uint64(0)
	var p0 epochstoragetypes.StakeEntry
	for i := 0; i < 3; i++ {
		e := epochstoragetypes.StakeEntry{Address: names[i], Chain: "LAV1", StakeAppliedBlock: 10}
		if i == 0 {
			switch verif_nondet_range("provider.stakeAge", 0, 1) {
			case 1:
				e.StakeAppliedBlock = 300 // staked (or unfrozen) recently: after the history horizon (block 180)
			}
			e.Jails = uint64(verif_nondet_range("provider.jailsSoFar", 0, 3))
			e.JailEndTime = now - int64(verif_nondet_in("provider.lastJailEndedSecondsAgo", 0, 200000))
			p0 = e
		} else if verif_nondet_bool("otherProvider.frozen") {
			e.Freeze()
		}
		if !e.IsFrozen() {
			unfrozenBefore++
		}
		verifC19Current = append(verifC19Current, e)
	}
	// complaint window: the two epochs ending recommendedEpochNumToCollectPayment (3) epochs ago = 340 and 320
	c40, c20 := verif_nondet_u64("complaints.epoch40"), verif_nondet_u64("complaints.epoch20")
	s40, s20 := verif_nondet_u64("serviced.epoch40"), verif_nondet_u64("serviced.epoch20")
	verif_assume(c40 < 1<<60 && c20 < 1<<60 && s40 < 1<<60 && s20 < 1<<60)
	has40, has20 := verif_nondet_bool("complaints.epoch40.recorded"), verif_nondet_bool("complaints.epoch20.recorded")
	if has40 {
		w.k.SetProviderEpochComplainerCu(w.ctx, 340, names[0], "LAV1", types.ProviderEpochComplainerCu{ComplainersCu: c40})
		w.k.SetProviderEpochCu(w.ctx, 340, names[0], "LAV1", types.ProviderEpochCu{ServicedCu: s40})
	}
	if has20 {
		w.k.SetProviderEpochComplainerCu(w.ctx, 320, names[0], "LAV1", types.ProviderEpochComplainerCu{ComplainersCu: c20})
		w.k.SetProviderEpochCu(w.ctx, 320, names[0], "LAV1", types.ProviderEpochCu{ServicedCu: s20})
	}

	w.k.PunishUnresponsiveProviders(w.ctx, types.EPOCHS_NUM_TO_CHECK_CU_FOR_UNRESPONSIVE_PROVIDER, types.EPOCHS_NUM_TO_CHECK_FOR_COMPLAINERS)

	var complaints, serviced uint64 // < 2^61 each: no wrap in the harness's own sums
	if has40 {
		complaints += c40
		serviced += s40
	}
	if has20 {
		complaints += c20
		serviced += s20
	}
	punished := len(verifC19Stored) > 0
	if !punished {
		// nothing else may have changed
		_, f40 := w.k.GetProviderEpochComplainerCu(w.ctx, 340, names[0], "LAV1")
		_, f20 := w.k.GetProviderEpochComplainerCu(w.ctx, 320, names[0], "LAV1")
		verif_assert("unpunished-provider-keeps-its-complaint-records", f40 == has40 && f20 == has20)
		justified := (has40 || has20) && complaints > 4*serviced
		enoughHistory := p0.Jails > 0 || p0.StakeAppliedBlock <= verifC19MinHistory
		if justified && enoughHistory && unfrozenBefore > plans.maxProviders {
			verif_assert("justified-complaints-with-enough-providers-left-do-punish", false)
		}
		verif_reach("not-punished")
		return
	}
	verif_assert("only-the-complained-provider-is-punished", len(verifC19Stored) == 1 && verifC19Stored[0].Address == names[0])
	verif_assert("punished-only-when-complaints-exceed-four-times-serviced-cu", complaints > 4*serviced)
	verif_assert("punished-only-with-enough-stake-history-or-earlier-jails", p0.Jails > 0 || p0.StakeAppliedBlock <= verifC19MinHistory)
	verif_assert("never-below-the-smallest-plans-provider-count", unfrozenBefore > plans.maxProviders)
	_, f40 := w.k.GetProviderEpochComplainerCu(w.ctx, 340, names[0], "LAV1")
	_, f20 := w.k.GetProviderEpochComplainerCu(w.ctx, 320, names[0], "LAV1")
	verif_assert("counted-complaints-are-removed", !f40 && !f20)
	after := verifC19Stored[0]
	recentJail := p0.JailEndTime > now-86400
	jails := uint64(1)
	if recentJail {
		jails = p0.Jails + 1
	}
	verif_assert("jail-counter-restarts-after-a-day", after.Jails == jails)
	if jails > 2 {
		verif_assert("third-jail-within-a-day-freezes-for-a-day", after.IsFrozen() && after.JailEndTime == now+86400)
		verif_reach("hard-jail")
	} else {
		verif_assert("soft-jail-lasts-an-hour-and-delays-the-stake", !after.IsFrozen() && after.JailEndTime == now+3600 && after.StakeAppliedBlock > 400)
		verif_reach("soft-jail")
	}
}

// history horizon: recommended epochs to collect payment (3) + the longer window (8) = 11 epochs before epoch 400
const verifC19MinHistory = 400 - 11*verifRPEpochBlocks

// VerifC19TwoCandidates: two of the three providers of a chain are punishable in the same epoch-start pass (overwhelming
// complaints, long stake history; each on its first or on its third jail within a day).  Every punishment counts against
// the guard: the pass punishes exactly as many providers as the chain has non-frozen providers above the smallest plan's
// providers-to-pair (two at most), so the non-frozen providers never drop below that count, whatever mix of soft and hard
// jails the candidates get.
func VerifC19TwoCandidates() {
	w := verifRPNewWorld(1000, 20)
	w.epochs.earliest = 0
	w.epochs.current = 400
	if verif_symbolic() {
		w.ctx = w.ctx.WithBlockHeight(400)
	} else {
		tkey := storetypes.NewTransientStoreKey("transient_pairing_params")
		w.ctx = verifCtx(400, 1700000000, w.k.storeKey, tkey)
		w.k.paramstore = paramtypes.NewSubspace(w.k.cdc, codec.NewLegacyAmino(), w.k.storeKey, tkey, "pairing").WithKeyTable(types.ParamKeyTable())
		w.k.SetParams(w.ctx, types.DefaultParams())
	}
	plans := verifC19Plans{maxProviders: uint64(verif_nondet_range("smallestPlan.MaxProvidersToPair", 1, 3))}
	w.k.planKeeper = plans
	now := w.ctx.BlockTime().UTC().Unix()
	names := []string{verifRPAddr(1), verifRPAddr(4), verifRPAddr(5)}
	verifC19Current, verifC19Stored = nil, nil
	for i := 0; i < 3; i++ {
		e := epochstoragetypes.StakeEntry{Address: names[i], Chain: "LAV1", StakeAppliedBlock: 10}
		if i < 2 {
			e.Jails = uint64(2 * verif_nondet_range("candidate.jailsSoFar/2", 0, 1))
			e.JailEndTime = now - 100
			cu := verif_nondet_u64("candidate.complaints")
			verif_assume(cu > 0 && cu < 1<<60)
			w.k.SetProviderEpochComplainerCu(w.ctx, 340, names[i], "LAV1", types.ProviderEpochComplainerCu{ComplainersCu: cu})
			w.k.SetProviderEpochCu(w.ctx, 340, names[i], "LAV1", types.ProviderEpochCu{ServicedCu: 0})
		}
		verifC19Current = append(verifC19Current, e)
	}

	w.k.PunishUnresponsiveProviders(w.ctx, types.EPOCHS_NUM_TO_CHECK_CU_FOR_UNRESPONSIVE_PROVIDER, types.EPOCHS_NUM_TO_CHECK_FOR_COMPLAINERS)

	allowed := 0
	if plans.maxProviders < 3 {
		allowed = int(3 - plans.maxProviders)
	}
	if allowed > 2 {
		allowed = 2
	}
	verif_assert("every-punishment-counts-against-the-min-providers-guard", len(verifC19Stored) <= allowed)
	verif_assert("candidates-are-punished-while-enough-providers-remain", len(verifC19Stored) == allowed)
	unfrozen := uint64(0)
	for _, e := range verifC19Current {
		if !e.IsFrozen() {
			unfrozen++
		}
	}
	verif_assert("never-below-the-smallest-plans-provider-count", unfrozen >= plans.maxProviders)
	if len(verifC19Stored) == 2 {
		verif_assert("two-different-providers-punished", verifC19Stored[0].Address != verifC19Stored[1].Address)
		verif_reach("both")
	}
	if len(verifC19Stored) == 1 {
		verif_reach("one")
	}
	verif_reach("end")
}
