package types

import (
	sdk "github.com/cosmos/cosmos-sdk/types"
)

var verifC22Key = CollectionData{ApiInterface: "jsonrpc", Type: "POST"}

// two further collection keys that only C defines (A inherits both without overriding them); they differ in which
// field carries the text, so any order-defining key that merely concatenates the fields cannot tell them apart
var verifC22KeyAddon = CollectionData{ApiInterface: "jsonrpc", AddOn: "trace"}
var verifC22KeyPath = CollectionData{ApiInterface: "jsonrpc", InternalPath: "trace"}

// stand-in for the generated proto text String() of CollectionData in the symbolic run (same field order and
// omission of empty fields as the compact proto text format); the native replay calls the real one
func verifC22CollectionDataString(m *CollectionData) string {
	s := ""
	if m.ApiInterface != "" {
		s += "api_interface:\"" + m.ApiInterface + "\" "
	}
	if m.InternalPath != "" {
		s += "internal_path:\"" + m.InternalPath + "\" "
	}
	if m.Type != "" {
		s += "type:\"" + m.Type + "\" "
	}
	if m.AddOn != "" {
		s += "add_on:\"" + m.AddOn + "\" "
	}
	return s
}

type verifC22World struct {
	edge   [3][3]bool // edge[i][j]: spec i imports spec j (0 = A, 1 = B, 2 = C)
	unk    bool       // A also imports an unknown spec
	enB    bool       // B's api enabled
	enC    bool       // C's api enabled
	collB  bool       // B's collection enabled
	ovrB   bool       // A defines its own api "b" (overrides the inherited one)
	extra  bool       // C has two more collections (other collection keys) that A does not define
	lookup int        // number of getSpec calls (termination measure)
}

var verifC22Names = []string{"A", "B", "C"}

// a fresh copy on every call, like Keeper.GetSpec unmarshalling from the store
func (w *verifC22World) spec(i int) Spec {
	s := Spec{Index: verifC22Names[i], Name: verifC22Names[i], Enabled: true}
	for j := 0; j < 3; j++ {
		if w.edge[i][j] {
			s.Imports = append(s.Imports, verifC22Names[j])
		}
	}
	coll := &ApiCollection{Enabled: true, CollectionData: verifC22Key}
	switch i {
	case 0:
		if w.unk {
			s.Imports = append(s.Imports, "X")
		}
		coll.Apis = []*Api{{Name: "a", Enabled: true, ComputeUnits: 10}}
		if w.ovrB {
			coll.Apis = append(coll.Apis, &Api{Name: "b", Enabled: true, ComputeUnits: 99})
		}
	case 1:
		coll.Enabled = w.collB
		coll.Apis = []*Api{{Name: "b", Enabled: w.enB, ComputeUnits: 20}}
	case 2:
		coll.Apis = []*Api{{Name: "c", Enabled: w.enC, ComputeUnits: 30}}
		if w.extra {
			s.ApiCollections = []*ApiCollection{coll,
				{Enabled: true, CollectionData: verifC22KeyPath, Apis: []*Api{{Name: "p", Enabled: true, ComputeUnits: 5}}},
				{Enabled: true, CollectionData: verifC22KeyAddon, Apis: []*Api{{Name: "q", Enabled: true, ComputeUnits: 6}}}}
			return s
		}
	}
	s.ApiCollections = []*ApiCollection{coll}
	return s
}

func (w *verifC22World) get(ctx sdk.Context, index string) (Spec, bool) {
	w.lookup++
	if w.lookup > 16 {
		panic("verif: expansion keeps importing (more spec lookups than any loop-free walk of three specs needs)")
	}
	for i, n := range verifC22Names {
		if n == index {
			return w.spec(i), true
		}
	}
	return Spec{}, false
}

// does a walk along imports from node i meet a spec that is already on the walk (onPath), i.e. an import loop?
func (w *verifC22World) loopFrom(i int, onPath [3]bool) bool {
	for j := 0; j < 3; j++ {
		if !w.edge[i][j] {
			continue
		}
		if onPath[j] {
			return true
		}
		next := onPath
		next[j] = true
		if w.loopFrom(j, next) {
			return true
		}
	}
	return false
}

func verifC22Count(apis []*Api, name string) (n int, cu uint64) {
	for _, a := range apis {
		if a.Name == name {
			n++
			cu = a.ComputeUnits
		}
	}
	return n, cu
}

// VerifC22Expand: three specs A, B, C with an arbitrary import relation among them (chains, diamonds, loops, a
// self import of A, an unknown import), enabled/disabled APIs, a disabled collection and an override.  Expanding A
// terminates; it fails exactly when an import loop or an unknown import is reachable; when it succeeds, A has its
// own APIs plus every enabled API of every enabled collection of its (transitive) imports, except the one it
// overrides, each exactly once - whatever the map iteration order.
func VerifC22Expand() {
	w := &verifC22World{}
	for i := 0; i < 3; i++ {
		for j := 0; j < 3; j++ {
			if i == j && i != 0 {
				continue // self imports of B and C are the same shape as A's
			}
			w.edge[i][j] = verif_nondet_bool("imports." + verifC22Names[i] + verifC22Names[j])
		}
	}
	w.unk = verif_nondet_bool("A.importsUnknownSpec")
	w.enB, w.enC = verif_nondet_bool("B.apiEnabled"), verif_nondet_bool("C.apiEnabled")
	w.collB = verif_nondet_bool("B.collectionEnabled")
	w.ovrB = verif_nondet_bool("A.overridesApiOfB")
	w.extra = verif_nondet_bool("C.hasTwoMoreCollections")

	root := w.spec(0)
	depends := map[string]bool{"A": true}
	inherit := map[string]bool{}
	_, err := DoExpandSpec(sdk.Context{}, &root, depends, &inherit, "A", w.get)

	verif_assert("expansion-terminates-within-the-import-graph", w.lookup <= 16)
	var onPath [3]bool
	onPath[0] = true
	loop := w.loopFrom(0, onPath)
	if loop || w.unk {
		verif_assert("import-loop-or-unknown-import-is-rejected", err != nil)
		verif_reach("rejected")
		return
	}
	verif_assert("loop-free-known-imports-expand", err == nil)
	if w.extra && w.edge[0][2] {
		// the collections A inherits wholesale come after its own, in the order of their keys' text form - the same on every run
		verif_assert("inherited-collections-appended-in-key-order", len(root.ApiCollections) == 3 &&
			root.ApiCollections[1].CollectionData == verifC22KeyAddon && root.ApiCollections[2].CollectionData == verifC22KeyPath &&
			len(root.ApiCollections[1].Apis) == 1 && len(root.ApiCollections[2].Apis) == 1)
		verif_reach("inherited-collections")
	} else if !(w.extra && viaBC(w)) {
		verif_assert("one-collection", len(root.ApiCollections) == 1)
	}
	apis := root.ApiCollections[0].Apis
	// B's API reaches A directly or through C (C's collection is always enabled); C's API directly or through B
	viaB := w.edge[0][1] && w.collB
	wantB := w.ovrB || (w.enB && w.collB && (w.edge[0][1] || (w.edge[0][2] && w.edge[2][1])))
	wantC := w.enC && (w.edge[0][2] || (viaB && w.edge[1][2]))
	nA, _ := verifC22Count(apis, "a")
	nB, cuB := verifC22Count(apis, "b")
	nC, _ := verifC22Count(apis, "c")
	verif_assert("own-api-kept-once", nA == 1)
	if wantB {
		verif_assert("api-of-import-present-once", nB == 1)
		if w.ovrB {
			verif_assert("overriding-api-wins", cuB == 99)
		}
	} else {
		verif_assert("disabled-or-unimported-api-absent", nB == 0)
	}
	if wantC {
		verif_assert("api-of-transitive-import-present-once", nC == 1)
		verif_reach("transitive")
	} else {
		verif_assert("disabled-or-unimported-transitive-api-absent", nC == 0)
	}
	verif_assert("nothing-else", len(apis) == nA+nB+nC)
	verif_reach("expanded")
}

// C's extra collections reach A only directly or through B importing C with B's ... (kept simple: direct import)
func viaBC(w *verifC22World) bool { return w.edge[0][1] && w.edge[1][2] }
