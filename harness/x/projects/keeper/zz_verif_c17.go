package keeper

import (
	"github.com/cometbft/cometbft/libs/log"
	storetypes "github.com/cosmos/cosmos-sdk/store/types"
	sdk "github.com/cosmos/cosmos-sdk/types"
	fixationtypes "github.com/lavanet/lava/v5/x/fixationstore/types"
	plantypes "github.com/lavanet/lava/v5/x/plans/types"
	"github.com/lavanet/lava/v5/x/projects/types"
	timerstoretypes "github.com/lavanet/lava/v5/x/timerstore/types"
)

const (
	verifC17EpochBlocks = 10
	verifC17StaleBlocks = 20
	verifC17Sub         = "sub"
	verifC17PA          = "sub-pa"
	verifC17PB          = "sub-pb"
	verifC17Key         = "devkey1"
)

type verifC17Epochs struct{ types.EpochStorageKeeper }

func (verifC17Epochs) GetNextEpoch(ctx sdk.Context, block uint64) (uint64, error) {
	return block - block%verifC17EpochBlocks + verifC17EpochBlocks, nil
}

func (verifC17Epochs) GetEpochStartForBlock(ctx sdk.Context, block uint64) (uint64, uint64, error) {
	return block - block%verifC17EpochBlocks, block % verifC17EpochBlocks, nil
}
func (verifC17Epochs) BlocksToSaveRaw(ctx sdk.Context) uint64 { return 4 * verifC17EpochBlocks }

type verifC17World struct {
	k        Keeper
	tsP, tsD *timerstoretypes.TimerStore
	ctx      sdk.Context
	height   int64
}

func verifC17NewWorld() *verifC17World {
	key := storetypes.NewKVStoreKey(types.StoreKey)
	ctx := verifCtx(100, 1700000000, key)
	cdc := verifCdc()
	stale := func(sdk.Context) uint64 { return verifC17StaleBlocks }
	tsP := timerstoretypes.NewTimerStore(key, cdc, types.ProjectsFixationPrefix)
	fsP := fixationtypes.NewFixationStore(key, cdc, types.ProjectsFixationPrefix, tsP, stale)
	tsD := timerstoretypes.NewTimerStore(key, cdc, types.DeveloperKeysFixationPrefix)
	fsD := fixationtypes.NewFixationStore(key, cdc, types.DeveloperKeysFixationPrefix, tsD, stale)
	k := Keeper{cdc: cdc, storeKey: key, epochstorageKeeper: verifC17Epochs{}, projectsFS: *fsP, developerKeysFS: *fsD}
	return &verifC17World{k: k, tsP: tsP, tsD: tsD, ctx: ctx, height: 100}
}

// every block begins with both fixation stores' timers (future versions, deletions, stale-outs)
func (w *verifC17World) advance(blocks int) {
	for i := 0; i < blocks; i++ {
		w.height++
		w.ctx = w.ctx.WithBlockHeight(w.height)
		w.tsP.Tick(w.ctx)
		w.tsD.Tick(w.ctx)
	}
}

func (w *verifC17World) holds(projectID string, block uint64) (found, holds bool) {
	var p types.Project
	found = w.k.projectsFS.FindEntry(w.ctx, projectID, block, &p)
	return found, found && p.GetKey(verifC17Key).IsType(types.ProjectKey_DEVELOPER)
}

// the cross-record invariants of the developer-key registry at one block
func (w *verifC17World) check(block uint64) {
	_, holdsA := w.holds(verifC17PA, block)
	_, holdsB := w.holds(verifC17PB, block)
	verif_assert("key-listed-by-at-most-one-project", !(holdsA && holdsB))
	dd, derr := w.k.GetProjectDeveloperData(w.ctx, verifC17Key, block)
	proj, perr := w.k.GetProjectForDeveloper(w.ctx, verifC17Key, block)
	if derr == nil {
		verif_assert("key-never-resolves-to-a-deleted-project", perr == nil && proj.Index == dd.ProjectID)
		if perr == nil {
			verif_assert("resolved-project-lists-the-key", proj.GetKey(verifC17Key).IsType(types.ProjectKey_DEVELOPER))
		}
	}
	if holdsA {
		verif_assert("listing-project-is-the-one-the-key-resolves-to", derr == nil && dd.ProjectID == verifC17PA)
	}
	if holdsB {
		verif_assert("listing-project-is-the-one-the-key-resolves-to", derr == nil && dd.ProjectID == verifC17PB)
	}
}

func (w *verifC17World) checkAll() {
	h := uint64(w.height)
	start := h - h%verifC17EpochBlocks
	w.check(start)
	if h != start {
		w.check(h)
	}
	w.check(start + verifC17EpochBlocks)
	w.check(start + 2*verifC17EpochBlocks)
}

// VerifC17Keys: a subscription with projects pa (holding developer key devkey1) and pb (where the same address may be an
// admin key).  An arbitrary history of key
// additions / removals on either project and deletion of pa follows, each step 0, 1 or 10 blocks (one epoch) after the
// previous one.  After every step, at the running epoch's start, the current block and the next two epoch starts, the
// key is listed by at most one project, resolves to exactly the project that lists it, and never to a deleted project.
func VerifC17Keys() {
	w := verifC17NewWorld()
	plan := plantypes.Plan{Index: "plan", ProjectsLimit: 0}
	dev := []types.ProjectKey{types.ProjectDeveloperKey(verifC17Key)}
	verif_assert("create-pa", w.k.CreateProject(w.ctx, verifC17Sub, types.ProjectData{Name: "pa", Enabled: true, ProjectKeys: dev}, plan) == nil)
	// the same address may also be a mere admin key of the other project (admin keys are not in the developer registry)
	var pbKeys []types.ProjectKey
	if verif_nondet_bool("keyIsAlsoAdminOfPb") {
		pbKeys = []types.ProjectKey{types.ProjectAdminKey(verifC17Key)}
	}
	verif_assert("create-pb", w.k.CreateProject(w.ctx, verifC17Sub, types.ProjectData{Name: "pb", Enabled: true, ProjectKeys: pbKeys}, plan) == nil)
	w.checkAll()
	steps := verif_param("steps", 3)
	moved := false
	for s := 0; s < steps; s++ {
		gap := []int{0, 1, verifC17EpochBlocks}[verif_nondet_range("step.blocksLater", 0, 2)]
		w.advance(gap)
		switch verif_nondet_range("step.op", 0, 4) {
		case 0:
			_ = w.k.AddKeysToProject(w.ctx, verifC17PA, verifC17Sub, dev)
		case 1:
			if w.k.AddKeysToProject(w.ctx, verifC17PB, verifC17Sub, dev) == nil {
				moved = true
			}
		case 2:
			_ = w.k.DelKeysFromProject(w.ctx, verifC17PA, verifC17Sub, dev)
		case 3:
			_ = w.k.DelKeysFromProject(w.ctx, verifC17PB, verifC17Sub, dev)
		case 4:
			_ = w.k.DeleteProject(w.ctx, verifC17Sub, verifC17PA)
		}
		w.checkAll()
	}
	// settle: everything scheduled for the next epoch happens
	w.advance(verifC17EpochBlocks)
	w.checkAll()
	if moved {
		verif_reach("moved")
	}
	verif_reach("end")
}

// VerifC17Charge: project pa accumulates versions (key changes effective this epoch / next epoch, a monthly snapshot in
// between); then a relay payment for an arbitrary earlier epoch charges cu to the project version of that epoch.  Every
// version from that one on within the same snapshot gains exactly cu; all other versions are unchanged.
func VerifC17Charge() {
	w := verifC17NewWorld()
	plan := plantypes.Plan{Index: "plan", ProjectsLimit: 0}
	dev := []types.ProjectKey{types.ProjectDeveloperKey(verifC17Key)}
	adm := []types.ProjectKey{types.ProjectAdminKey("admin2")}
	verif_assert("create-pa", w.k.CreateProject(w.ctx, verifC17Sub, types.ProjectData{Name: "pa", Enabled: true, ProjectKeys: dev}, plan) == nil)
	w.advance(3)
	verif_assert("add-admin", w.k.AddKeysToProject(w.ctx, verifC17PA, verifC17Sub, adm) == nil) // version at 100 rewritten
	verif_assert("del-admin", w.k.DelKeysFromProject(w.ctx, verifC17PA, verifC17Sub, adm) == nil) // version at 110
	w.advance(9)                                                                                // block 112
	snapshot := verif_nondet_range("monthlySnapshotAt112", 0, 1) == 1
	if snapshot {
		w.k.SnapshotSubscriptionProjects(w.ctx, verifC17Sub, uint64(w.height))
	}
	w.advance(13)                                                                                // block 125
	verif_assert("add-admin-2", w.k.AddKeysToProject(w.ctx, verifC17PA, verifC17Sub, adm) == nil) // version at 120
	verif_assert("del-dev", w.k.DelKeysFromProject(w.ctx, verifC17PA, verifC17Sub, dev) == nil)   // version at 130
	pre0 := verif_nondet_in("usedCuBefore", 0, 1<<40)
	cu := uint64(verif_nondet_in("relay.cu", 1, 1<<40))
	// earlier usage already charged to all versions of the first snapshot
	first, err := w.k.GetProjectForBlock(w.ctx, verifC17PA, 100)
	verif_assert("first-version-found", err == nil)
	_ = w.k.ChargeComputeUnitsToProject(w.ctx, first, 100, uint64(pre0))

	versions := w.k.projectsFS.GetAllEntryVersions(w.ctx, verifC17PA)
	before := map[uint64]types.Project{}
	for _, v := range versions {
		var p types.Project
		w.k.projectsFS.ReadEntry(w.ctx, verifC17PA, v, &p)
		before[v] = p
	}
	epoch := uint64(100 + 10*verif_nondet_range("relay.epoch", 0, 2))
	charged, err := w.k.GetProjectForBlock(w.ctx, verifC17PA, epoch)
	verif_assert("project-of-the-relay-epoch-found", err == nil)
	chargedBlock := uint64(0)
	for _, v := range versions {
		if v <= epoch && v > chargedBlock {
			chargedBlock = v
		}
	}
	verif_assert("charge-succeeds", w.k.ChargeComputeUnitsToProject(w.ctx, charged, epoch, cu) == nil)
	after := w.k.projectsFS.GetAllEntryVersions(w.ctx, verifC17PA)
	verif_assert("charging-creates-no-versions", len(after) == len(versions))
	for _, v := range versions {
		var p types.Project
		w.k.projectsFS.ReadEntry(w.ctx, verifC17PA, v, &p)
		b := before[v]
		if v >= chargedBlock && b.Snapshot == charged.Snapshot {
			verif_assert("version-in-the-snapshot-charged-exactly-once", p.UsedCu == b.UsedCu+cu)
		} else {
			verif_assert("other-versions-untouched", p.UsedCu == b.UsedCu)
		}
		verif_assert("charging-changes-nothing-but-used-cu", p.Snapshot == b.Snapshot && len(p.ProjectKeys) == len(b.ProjectKeys) && p.Index == b.Index)
	}
	if snapshot {
		verif_reach("two-snapshots")
	}
	verif_reach("end")
}

func verifC17Logger(k Keeper, ctx sdk.Context) log.Logger { return nil }
