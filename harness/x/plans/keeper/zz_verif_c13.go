package keeper

import (
	"cosmossdk.io/math"
	storetypes "github.com/cosmos/cosmos-sdk/store/types"
	sdk "github.com/cosmos/cosmos-sdk/types"
	fixationtypes "github.com/lavanet/lava/v5/x/fixationstore/types"
	"github.com/lavanet/lava/v5/x/plans/types"
	timerstoretypes "github.com/lavanet/lava/v5/x/timerstore/types"
)

const verifC13EpochBlocks = 10
const verifC13StaleBlocks = 4

type verifC13Epochs struct{ types.EpochStorageKeeper }

func (verifC13Epochs) GetNextEpoch(ctx sdk.Context, block uint64) (uint64, error) {
	return block - block%verifC13EpochBlocks + verifC13EpochBlocks, nil
}
func (verifC13Epochs) GetEpochStart(ctx sdk.Context) uint64 {
	b := uint64(ctx.BlockHeight())
	return b - b%verifC13EpochBlocks
}

type verifC13Staking struct{ types.StakingKeeper }

func (verifC13Staking) BondDenom(ctx sdk.Context) string { return "ulava" }

type verifC13World struct {
	k      Keeper
	ts     *timerstoretypes.TimerStore
	ctx    sdk.Context
	height int64
}

func verifC13NewWorld() *verifC13World {
	key := storetypes.NewKVStoreKey(types.StoreKey)
	ctx := verifCtx(100, 1700000000, key)
	cdc := verifCdc()
	ts := timerstoretypes.NewTimerStore(key, cdc, types.PlanFixationStorePrefix)
	fs := fixationtypes.NewFixationStore(key, cdc, types.PlanFixationStorePrefix, ts, func(sdk.Context) uint64 { return verifC13StaleBlocks })
	return &verifC13World{k: Keeper{epochstorageKeeper: verifC13Epochs{}, stakingKeeper: verifC13Staking{}, plansFS: *fs}, ts: ts, ctx: ctx, height: 100}
}

// block progression: every block begins with the fixation store's timers (future versions, deletions, stale-outs)
func (w *verifC13World) advance(blocks int) {
	for i := 0; i < blocks; i++ {
		w.height++
		w.ctx = w.ctx.WithBlockHeight(w.height)
		w.ts.Tick(w.ctx)
	}
}

func verifC13Plan(price int64) types.Plan {
	return types.Plan{Index: "p", Price: sdk.Coin{Denom: "ulava", Amount: math.NewInt(price)}, PlanPolicy: types.Policy{EpochCuLimit: 10, TotalCuLimit: 100, MaxProvidersToPair: 2}}
}

// VerifC13PlanRefs: a plan is added, a subscription buys it (taking a reference to that version), and governance
// then adds newer versions of the plan and/or deletes it, at arbitrary points of the running and the next epoch.
// The chain runs on well past every deletion block and stale period.  The version the subscription references can
// still be looked up all along, block processing never panics, and when the subscription finally expires the
// reference is dropped without trouble; a plan that was deleted is not sold any more.
func VerifC13PlanRefs() {
	w := verifC13NewWorld()
	price := int64(verif_nondet_in("plan.price", 1, 1<<40))
	verif_assert("plan-added", w.k.AddPlan(w.ctx, verifC13Plan(price), false) == nil)
	w.advance(1)
	bought, found := w.k.GetPlan(w.ctx, "p") // the subscription's reference
	verif_assert("subscription-buys-the-current-version", found && bought.Block == 100 && bought.Price.Amount.Int64() == price)

	steps := verif_param("governance_steps", 2)
	deleted := false
	var newest uint64 = 100
	for s := 0; s < steps; s++ {
		gap := []int{0, 1, verifC13EpochBlocks - 1, verifC13EpochBlocks}[verif_nondet_range("step.blocksLater", 0, 3)]
		w.advance(gap)
		switch verif_nondet_range("step.proposal", 0, 2) {
		case 1: // plans-add proposal: a new version at the current block
			err := w.k.AddPlan(w.ctx, verifC13Plan(int64(verif_nondet_in("newVersion.price", 1, 1<<40))), false)
			if err == nil && uint64(w.height) > newest {
				newest = uint64(w.height)
			}
		case 2: // plans-del proposal: takes effect at the next epoch start
			if w.k.DelPlan(w.ctx, "p") == nil {
				deleted = true
			}
		}
		got, ok := w.k.FindPlan(w.ctx, "p", 100)
		verif_assert("referenced-version-available-right-after-a-proposal", ok && got.Price.Amount.Int64() == price)
	}
	// run past the deletion block and the stale period of everything that lost its last reference
	for i := 0; i < 2; i++ {
		w.advance(verifC13EpochBlocks)
		got, ok := w.k.FindPlan(w.ctx, "p", 100)
		verif_assert("referenced-version-available-while-the-subscription-lives", ok && got.Price.Amount.Int64() == price && got.Block == 100)
	}
	// the subscription expires: its reference is returned
	w.k.PutPlan(w.ctx, "p", 100)
	w.advance(verifC13StaleBlocks + verifC13EpochBlocks)
	_, sold := w.k.GetPlan(w.ctx, "p")
	if deleted && newest == 100 {
		verif_assert("deleted-plan-is-not-sold-any-more", !sold)
		verif_reach("deleted")
	}
	verif_reach("end")
}
