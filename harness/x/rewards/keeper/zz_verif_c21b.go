package keeper

import (
	"encoding/binary"
	"fmt"
	"time"

	"cosmossdk.io/math"
	"github.com/cometbft/cometbft/libs/log"
	"github.com/cosmos/cosmos-sdk/codec"
	storetypes "github.com/cosmos/cosmos-sdk/store/types"
	sdk "github.com/cosmos/cosmos-sdk/types"
	paramtypes "github.com/cosmos/cosmos-sdk/x/params/types"
	"github.com/lavanet/lava/v5/utils"
	v1 "github.com/lavanet/lava/v5/x/downtime/v1"
	"github.com/lavanet/lava/v5/x/rewards/types"
	timerstoretypes "github.com/lavanet/lava/v5/x/timerstore/types"
)

// ---- model bank: one denomination, balances per module account name ----

type verifC21Bank struct {
	types.BankKeeper
	bal    map[string]math.Int
	burned math.Int
}

func (b *verifC21Bank) get(name string) math.Int {
	if v, ok := b.bal[name]; ok {
		return v
	}
	return math.ZeroInt()
}

func (b *verifC21Bank) GetAllBalances(ctx sdk.Context, addr sdk.AccAddress) sdk.Coins {
	amt := b.get(string(addr))
	if amt.IsZero() {
		return sdk.Coins{}
	}
	return sdk.Coins{sdk.Coin{Denom: "ulava", Amount: amt}}
}

func (b *verifC21Bank) SendCoinsFromModuleToModule(ctx sdk.Context, from, to string, amt sdk.Coins) error {
	a := amt.AmountOf("ulava")
	if b.get(from).LT(a) {
		return fmt.Errorf("insufficient funds")
	}
	b.bal[from] = b.get(from).Sub(a)
	b.bal[to] = b.get(to).Add(a)
	return nil
}

func (b *verifC21Bank) BurnCoins(ctx sdk.Context, name string, amt sdk.Coins) error {
	a := amt.AmountOf("ulava")
	if b.get(name).LT(a) {
		return fmt.Errorf("insufficient funds")
	}
	b.bal[name] = b.get(name).Sub(a)
	b.burned = b.burned.Add(a)
	return nil
}

type verifC21Accounts struct{ types.AccountKeeper }

func (verifC21Accounts) GetModuleAddress(name string) sdk.AccAddress { return sdk.AccAddress(name) }

type verifC21Staking2 struct{ types.StakingKeeper }

func (verifC21Staking2) BondDenom(ctx sdk.Context) string { return "ulava" }

type verifC21Downtime struct{ types.DowntimeKeeper }

func (verifC21Downtime) GetParams(ctx sdk.Context) v1.Params {
	return v1.Params{DowntimeDuration: 30 * time.Second, EpochDuration: 10 * time.Minute}
}

// stubs for the symbolic run: the params come from the harness (the native replay stores them in a real params
// subspace), NextMonth is "30 days later" (calendar arithmetic is outside the claim), Keeper.Logger is not needed
var verifC21Params types.Params

func verifC21GetParams(k Keeper, ctx sdk.Context) types.Params { return verifC21Params }

func verifC21NextMonth(date time.Time) time.Time { return date.Add(30 * 24 * time.Hour) }

// VerifC21Refill: the monthly refill callback from arbitrary pool balances, burn rate and months left.
func VerifC21Refill() {
	D := verif_nondet_ubig("validatorsDistribution", 60)
	A := verif_nondet_ubig("validatorsAllocation", 60)
	L := verif_nondet_ubig("validatorsLeftover", 60)
	PD := verif_nondet_ubig("providersDistribution", 60)
	PA := verif_nondet_ubig("providersAllocation", 60)
	ratePct := verif_nondet_in("leftoverBurnRatePercent", 0, 100)
	monthsChoice := verif_nondet_range("monthsLeft", 0, 4) // 0: timer without data (lifetime 48), then 0, 1, 2, 12
	months := []uint64{48, 0, 1, 2, 12}[monthsChoice]
	var data []byte
	if monthsChoice > 0 {
		data = make([]byte, 8)
		binary.BigEndian.PutUint64(data, months)
	}
	const now = 1700000000
	key := storetypes.NewKVStoreKey(types.StoreKey)
	tkey := storetypes.NewTransientStoreKey("transient_rewards_params")
	ctx := verifCtx(100, now, key, tkey)
	bank := &verifC21Bank{bal: map[string]math.Int{
		string(types.ValidatorsRewardsDistributionPoolName): math.NewIntFromBigInt(D),
		string(types.ValidatorsRewardsAllocationPoolName):   math.NewIntFromBigInt(A),
		string(types.ValidatorsRewardsLeftOverPoolName):     math.NewIntFromBigInt(L),
		string(types.ProviderRewardsDistributionPool):       math.NewIntFromBigInt(PD),
		string(types.ProvidersRewardsAllocationPool):        math.NewIntFromBigInt(PA),
	}, burned: math.ZeroInt()}
	cdc := verifCdc()
	k := Keeper{cdc: cdc, storeKey: key, bankKeeper: bank, accountKeeper: verifC21Accounts{}, stakingKeeper: verifC21Staking2{}, downtimeKeeper: verifC21Downtime{}}
	k.refillRewardsPoolTS = *timerstoretypes.NewTimerStore(key, cdc, "refill").WithCallbackByBlockTime(func(sdk.Context, []byte, []byte) {})
	params := types.DefaultParams()
	params.LeftoverBurnRate = sdk.NewDecWithPrec(int64(ratePct), 2)
	if verif_symbolic() {
		verifC21Params = params
	} else {
		k.paramstore = paramtypes.NewSubspace(cdc, codec.NewLegacyAmino(), key, tkey, "rewards").WithKeyTable(types.ParamKeyTable())
		k.SetParams(ctx, params)
	}

	k.RefillRewardsPools(ctx, nil, data)

	hundred := math.NewInt(100)
	burnV := math.NewIntFromBigInt(D).MulRaw(int64(ratePct)).Quo(hundred)
	quotaV, quotaP := math.ZeroInt(), math.ZeroInt()
	if months != 0 {
		quotaV = math.NewIntFromBigInt(A).QuoRaw(int64(months))
		quotaP = math.NewIntFromBigInt(PA).QuoRaw(int64(months))
	}
	verif_assert("validators-distribution-burns-rate-of-what-was-left-then-gets-quota-and-leftover",
		bank.get(string(types.ValidatorsRewardsDistributionPoolName)).Equal(math.NewIntFromBigInt(D).Sub(burnV).Add(quotaV).Add(math.NewIntFromBigInt(L))))
	verif_assert("validators-allocation-pays-balance-over-months-left", bank.get(string(types.ValidatorsRewardsAllocationPoolName)).Equal(math.NewIntFromBigInt(A).Sub(quotaV)))
	verif_assert("leftover-pool-emptied", bank.get(string(types.ValidatorsRewardsLeftOverPoolName)).IsZero())
	verif_assert("providers-distribution-burned-in-full-then-gets-quota", bank.get(string(types.ProviderRewardsDistributionPool)).Equal(quotaP))
	verif_assert("providers-allocation-pays-balance-over-months-left", bank.get(string(types.ProvidersRewardsAllocationPool)).Equal(math.NewIntFromBigInt(PA).Sub(quotaP)))
	verif_assert("burned-exactly-the-configured-fraction", bank.burned.Equal(burnV.Add(math.NewIntFromBigInt(PD))))
	// next refill timer: one month ahead, months left decremented (never below 1 once positive)
	_, expiries, datas := k.refillRewardsPoolTS.GetFrontTimers(ctx, timerstoretypes.BlockTime)
	wantMonths := months
	if months > 1 {
		wantMonths = months - 1
	}
	verif_assert("next-refill-timer-one-month-ahead-with-months-left", len(expiries) == 1 && expiries[0] == uint64(utils.NextMonth(time.Unix(now, 0).UTC()).UTC().Unix()) &&
		len(datas[0]) == 8 && binary.BigEndian.Uint64(datas[0]) == wantMonths)
	verif_reach("end")
}

func verifC21Logger(k Keeper, ctx sdk.Context) log.Logger { return nil }
