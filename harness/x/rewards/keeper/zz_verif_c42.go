package keeper

import (
	"fmt"

	"cosmossdk.io/collections"
	"cosmossdk.io/math"
	"github.com/cosmos/cosmos-sdk/codec"
	storetypes "github.com/cosmos/cosmos-sdk/store/types"
	sdk "github.com/cosmos/cosmos-sdk/types"
	distributiontypes "github.com/cosmos/cosmos-sdk/x/distribution/types"
	paramtypes "github.com/cosmos/cosmos-sdk/x/params/types"
	collcompat "github.com/lavanet/lava/v5/utils/collcompat"
	epochstoragetypes "github.com/lavanet/lava/v5/x/epochstorage/types"
	"github.com/lavanet/lava/v5/x/rewards/types"
	spectypes "github.com/lavanet/lava/v5/x/spec/types"
	timerstoretypes "github.com/lavanet/lava/v5/x/timerstore/types"
)

// ---- model environment of the IPRPC month: bank (balances per account name and denomination), dual staking (records what
// each provider was handed and moves it out of the sender pool), spec / epochstorage / distribution keepers ----

const (
	verifC42Ulava = "ulava"
	verifC42Ibc   = "ibc/usdc"
)

type verifC42Bank struct {
	types.BankKeeper
	bal map[string]math.Int // "<account>|<denom>"
}

func (b *verifC42Bank) get(name, denom string) math.Int {
	if v, ok := b.bal[name+"|"+denom]; ok {
		return v
	}
	return math.ZeroInt()
}

func (b *verifC42Bank) move(from, to string, amt sdk.Coins) error {
	for _, c := range amt {
		if c.Amount.IsNegative() {
			return fmt.Errorf("negative amount")
		}
		if b.get(from, c.Denom).LT(c.Amount) {
			return fmt.Errorf("insufficient funds")
		}
	}
	for _, c := range amt {
		b.bal[from+"|"+c.Denom] = b.get(from, c.Denom).Sub(c.Amount)
		b.bal[to+"|"+c.Denom] = b.get(to, c.Denom).Add(c.Amount)
	}
	return nil
}

func (b *verifC42Bank) GetAllBalances(ctx sdk.Context, addr sdk.AccAddress) sdk.Coins {
	out := sdk.Coins{}
	for _, d := range []string{verifC42Ibc, verifC42Ulava} {
		if a := b.get(string(addr), d); a.IsPositive() {
			out = append(out, sdk.Coin{Denom: d, Amount: a})
		}
	}
	return out
}

func (b *verifC42Bank) SendCoinsFromModuleToModule(ctx sdk.Context, from, to string, amt sdk.Coins) error {
	return b.move(from, to, amt)
}

func (b *verifC42Bank) SendCoinsFromAccountToModule(ctx sdk.Context, from sdk.AccAddress, to string, amt sdk.Coins) error {
	return b.move(string(from), to, amt)
}

type verifC42Dualstaking struct {
	bank *verifC42Bank
	paid map[string]sdk.Coins // "<provider> <chain>"
	n    int
}

func (d *verifC42Dualstaking) RewardProvidersAndDelegators(ctx sdk.Context, provider string, chainID string, totalReward sdk.Coins, senderModule string, calcOnlyProvider bool, calcOnlyDelegators bool, calcOnlyContributor bool) (sdk.Coins, error) {
	if err := d.bank.move(senderModule, "dualstaking", totalReward); err != nil {
		return sdk.NewCoins(), err
	}
	d.n++
	key := provider + " " + chainID
	if prev, ok := d.paid[key]; ok {
		d.paid[key] = prev.Add(totalReward...)
	} else {
		d.paid[key] = totalReward
	}
	return totalReward, nil
}

type verifC42Specs struct{ types.SpecKeeper }

func (verifC42Specs) GetAllChainIDs(ctx sdk.Context) []string { return []string{"SPA", "SPB"} }
func (verifC42Specs) GetSpec(ctx sdk.Context, index string) (spectypes.Spec, bool) {
	if index == "SPA" || index == "SPB" {
		return spectypes.Spec{Index: index, Enabled: true, Shares: 1}, true
	}
	return spectypes.Spec{}, false
}

func (verifC42Specs) IsSpecFoundAndActive(ctx sdk.Context, chainID string) (bool, bool, spectypes.Spec_ProvidersTypes) {
	if chainID == "SPA" || chainID == "SPB" {
		return true, true, spectypes.Spec_dynamic
	}
	return false, chainID == "SPX", spectypes.Spec_dynamic // SPX: a disabled spec
}

type verifC42Epochs struct{ types.EpochstorageKeeper }

func (verifC42Epochs) GetStakeEntryCurrent(ctx sdk.Context, chainID string, address string) (epochstoragetypes.StakeEntry, bool) {
	if address == "prov1" || address == "prov2" {
		return epochstoragetypes.StakeEntry{Address: address, Chain: chainID, Stake: sdk.NewCoin(verifC42Ulava, math.NewInt(1000)), DelegateTotal: sdk.NewCoin(verifC42Ulava, math.ZeroInt())}, true
	}
	return epochstoragetypes.StakeEntry{}, false
}

func (e verifC42Epochs) GetAllStakeEntriesCurrentForChainId(ctx sdk.Context, chainID string) []epochstoragetypes.StakeEntry {
	a, _ := e.GetStakeEntryCurrent(ctx, chainID, "prov1")
	b, _ := e.GetStakeEntryCurrent(ctx, chainID, "prov2")
	return []epochstoragetypes.StakeEntry{a, b}
}

type verifC42Distribution struct {
	tax  math.LegacyDec
	pool distributiontypes.FeePool
}

func (d *verifC42Distribution) GetParams(ctx sdk.Context) distributiontypes.Params {
	return distributiontypes.Params{CommunityTax: d.tax}
}
func (d *verifC42Distribution) GetFeePool(ctx sdk.Context) distributiontypes.FeePool { return d.pool }
func (d *verifC42Distribution) SetFeePool(ctx sdk.Context, p distributiontypes.FeePool) {
	d.pool = p
}

func verifC42FromBech32(s string) (sdk.AccAddress, error) {
	if s == "" {
		return nil, fmt.Errorf("empty address")
	}
	return sdk.AccAddress(s), nil
}

type verifC42Env struct {
	k    Keeper
	ctx  sdk.Context
	bank *verifC42Bank
	ds   *verifC42Dualstaking
	dist *verifC42Distribution
}

// taxProfile 0: no community tax, no validators participation; 1: community tax 2%, validators participation 5%
func verifC42Setup(taxProfile int) *verifC42Env {
	key := storetypes.NewKVStoreKey(types.StoreKey)
	tkey := storetypes.NewTransientStoreKey("transient_rewards_params")
	ctx := verifCtx(100, 1700000000, key, tkey)
	bank := &verifC42Bank{bal: map[string]math.Int{}}
	ds := &verifC42Dualstaking{bank: bank, paid: map[string]sdk.Coins{}}
	dist := &verifC42Distribution{tax: math.LegacyZeroDec()}
	cdc := verifCdc()
	k := Keeper{
		cdc: cdc, storeKey: key, bankKeeper: bank, accountKeeper: verifC21Accounts{}, stakingKeeper: verifC21Staking2{}, downtimeKeeper: verifC21Downtime{},
		specKeeper: verifC42Specs{}, epochstorage: verifC42Epochs{}, dualstakingKeeper: ds, distributionKeeper: dist,
	}
	k.refillRewardsPoolTS = *timerstoretypes.NewTimerStore(key, cdc, "refill").WithCallbackByBlockTime(func(sdk.Context, []byte, []byte) {})
	sb := collections.NewSchemaBuilder(collcompat.NewKVStoreService(key))
	k.lastRewardsBlock = collections.NewItem(sb, types.LastRewardsBlockPrefix, "last_rewards_block", collections.Uint64Value)
	params := types.DefaultParams()
	params.ValidatorsSubscriptionParticipation = math.LegacyZeroDec()
	if taxProfile == 1 {
		dist.tax = math.LegacyNewDecWithPrec(2, 2)
		params.ValidatorsSubscriptionParticipation = math.LegacyNewDecWithPrec(5, 2)
	}
	if verif_symbolic() {
		verifC21Params = params
	} else {
		k.paramstore = paramtypes.NewSubspace(cdc, codec.NewLegacyAmino(), key, tkey, "rewards").WithKeyTable(types.ParamKeyTable())
		k.SetParams(ctx, params)
	}
	k.SetMinIprpcCost(ctx, sdk.NewCoin(verifC42Ulava, math.NewInt(100)))
	k.SetIprpcSubscription(ctx, "sub_eligible")
	return &verifC42Env{k: k, ctx: ctx, bank: bank, ds: ds, dist: dist}
}

func verifC42Coins(ulava, ibc math.Int) sdk.Coins {
	out := sdk.Coins{}
	if ibc.IsPositive() {
		out = append(out, sdk.Coin{Denom: verifC42Ibc, Amount: ibc})
	}
	if ulava.IsPositive() {
		out = append(out, sdk.Coin{Denom: verifC42Ulava, Amount: ulava})
	}
	return out
}

func verifC42SpecFund(r types.IprpcReward, spec string) (sdk.Coins, int) {
	out, n := sdk.NewCoins(), 0
	for _, sf := range r.SpecFunds {
		if sf.Spec == spec {
			out = out.Add(sf.Fund...)
			n++
		}
	}
	return out, n
}

// VerifC42Distribute: one month boundary.  The current month's IprpcReward funds spec SPA (FA) and possibly SPB (FB); the
// next month may already hold funds for SPA.  During the month prov1/prov2 served IPRPC-eligible traffic (recorded through
// AggregateCU, together with traffic of a regular subscription that must not count).  DistributeMonthlyBonusRewards then
// pays each provider floor(fundAfterParticipation * cu / totalCu), rolls unserved specs' funds over to the next month,
// and sends rounding leftovers to the community pool: nothing is lost, nothing paid twice.
func VerifC42Distribute() {
	twoDenoms := verif_param("denoms", 1) == 2
	FA := math.NewIntFromBigInt(verif_nondet_ubig("fundA.ulava", 40))
	FB := math.NewIntFromBigInt(verif_nondet_ubig("fundB.ulava", 40))
	GA := math.ZeroInt()
	if twoDenoms {
		GA = math.NewIntFromBigInt(verif_nondet_ubig("fundA.ibc", 40))
	}
	NA := math.NewIntFromBigInt(verif_nondet_ubig("nextMonthFundA.ulava", 40))
	slack := math.NewIntFromBigInt(verif_nondet_ubig("poolSlack.ulava", 40))
	verif_assume(FA.IsPositive() && FB.IsPositive() && NA.IsPositive())
	hasB := verif_nondet_range("currentMonthFundsSpecB", 0, 1) == 1
	nextExists := verif_nondet_range("nextMonthRewardExists", 0, 1) == 1
	taxProfile := verif_nondet_range("taxProfile", 0, 1)
	cuA1 := uint64(verif_nondet_range("cu.prov1.SPA", 0, 2))
	cuA2 := uint64(verif_nondet_range("cu.prov2.SPA", 0, 1)) * 3
	cuB1 := uint64(verif_nondet_range("cu.prov1.SPB", 0, 1)) * 2

	e := verifC42Setup(taxProfile)
	k, ctx := e.k, e.ctx
	const cur = 3
	k.SetIprpcRewardsCurrentId(ctx, cur)
	month := types.IprpcReward{Id: cur, SpecFunds: []types.Specfund{{Spec: "SPA", Fund: verifC42Coins(FA, GA)}}}
	poolU := FA.Add(slack)
	if hasB {
		month.SpecFunds = append(month.SpecFunds, types.Specfund{Spec: "SPB", Fund: verifC42Coins(FB, math.ZeroInt())})
		poolU = poolU.Add(FB)
	}
	k.SetIprpcReward(ctx, month)
	if nextExists {
		k.SetIprpcReward(ctx, types.IprpcReward{Id: cur + 1, SpecFunds: []types.Specfund{{Spec: "SPA", Fund: verifC42Coins(NA, math.ZeroInt())}}})
		poolU = poolU.Add(NA)
	}
	pool := string(types.IprpcPoolName)
	e.bank.bal[pool+"|"+verifC42Ulava] = poolU
	e.bank.bal[pool+"|"+verifC42Ibc] = GA

	// the month's traffic
	if cuA1 > 0 {
		k.AggregateCU(ctx, "sub_eligible", "prov1", "SPA", cuA1)
	}
	if cuA2 > 0 {
		k.AggregateCU(ctx, "sub_eligible", "prov2", "SPA", 1)
		k.AggregateCU(ctx, "sub_eligible", "prov2", "SPA", cuA2-1)
	}
	if cuB1 > 0 {
		k.AggregateCU(ctx, "sub_eligible", "prov1", "SPB", cuB1)
	}
	k.AggregateCU(ctx, "sub_regular", "prov2", "SPB", 7) // a regular subscription's traffic earns no IPRPC reward

	// the participation the month's funds owe (the participation formula itself belongs to the rewards-pool property)
	part := func(c sdk.Coin) (math.Int, math.Int) {
		v, cm, err := k.CalculateValidatorsAndCommunityParticipationRewards(ctx, c)
		if err != nil {
			panic(err)
		}
		return v.AmountOf(c.Denom), cm.AmountOf(c.Denom)
	}

	k.DistributeMonthlyBonusRewards(ctx)

	wantVal, wantComm := map[string]math.Int{verifC42Ulava: math.ZeroInt(), verifC42Ibc: math.ZeroInt()}, map[string]math.Int{verifC42Ulava: math.ZeroInt(), verifC42Ibc: math.ZeroInt()}
	wantNext := map[string]sdk.Coins{"SPA": sdk.NewCoins(), "SPB": sdk.NewCoins()}
	if nextExists {
		wantNext["SPA"] = verifC42Coins(NA, math.ZeroInt())
	}
	wantPool := map[string]math.Int{verifC42Ulava: poolU, verifC42Ibc: GA}
	paidTotal := map[string]math.Int{verifC42Ulava: math.ZeroInt(), verifC42Ibc: math.ZeroInt()}
	type served struct {
		spec string
		fund sdk.Coins
		cus  map[string]uint64
		on   bool
	}
	for _, s := range []served{
		{"SPA", verifC42Coins(FA, GA), map[string]uint64{"prov1": cuA1, "prov2": cuA2}, true},
		{"SPB", verifC42Coins(FB, math.ZeroInt()), map[string]uint64{"prov1": cuB1, "prov2": 0}, hasB},
	} {
		if !s.on {
			verif_assert("spec-without-funds-pays-nothing", len(e.ds.paid["prov1 "+s.spec]) == 0 && len(e.ds.paid["prov2 "+s.spec]) == 0)
			continue
		}
		total := s.cus["prov1"] + s.cus["prov2"]
		if total == 0 {
			// nobody served the spec: the funds roll over to the next month
			wantNext[s.spec] = wantNext[s.spec].Add(s.fund...)
			verif_assert("unserved-spec-pays-nothing", len(e.ds.paid["prov1 "+s.spec]) == 0 && len(e.ds.paid["prov2 "+s.spec]) == 0)
			continue
		}
		for _, c := range s.fund {
			v, cm := part(c)
			after := c.Amount.Sub(v).Sub(cm)
			used := math.ZeroInt()
			for _, p := range []string{"prov1", "prov2"} {
				want := after.Mul(math.NewIntFromUint64(s.cus[p])).Quo(math.NewIntFromUint64(total))
				got := e.ds.paid[p+" "+s.spec].AmountOf(c.Denom)
				verif_assert("provider-paid-its-cu-share-rounded-down", got.Equal(want))
				used = used.Add(want)
			}
			wantVal[c.Denom] = wantVal[c.Denom].Add(v)
			wantComm[c.Denom] = wantComm[c.Denom].Add(cm).Add(after.Sub(used))
			wantPool[c.Denom] = wantPool[c.Denom].Sub(c.Amount)
			paidTotal[c.Denom] = paidTotal[c.Denom].Add(used)
		}
	}
	for _, d := range []string{verifC42Ulava, verifC42Ibc} {
		verif_assert("iprpc-pool-debited-exactly-the-served-specs-funds", e.bank.get(pool, d).Equal(wantPool[d]))
		verif_assert("providers-received-what-was-recorded", e.bank.get("dualstaking", d).Equal(paidTotal[d]))
		verif_assert("validators-participation-to-the-validators-pool", e.bank.get(string(types.ValidatorsRewardsLeftOverPoolName), d).Add(e.bank.get(string(types.ValidatorsRewardsDistributionPoolName), d)).Equal(wantVal[d]))
		verif_assert("community-gets-participation-plus-rounding-leftovers", e.bank.get(distributiontypes.ModuleName, d).Equal(wantComm[d]))
		verif_assert("community-fee-pool-records-what-it-got", e.dist.pool.CommunityPool.AmountOf(d).Equal(math.LegacyNewDecFromInt(wantComm[d])))
	}
	verif_assert("month-advanced", k.GetIprpcRewardsCurrentId(ctx) == cur+1)
	lastBlock, lerr := k.GetLastRewardsBlock(ctx)
	verif_assert("distribution-block-recorded", lerr == nil && lastBlock == 100)
	_, curStill := k.GetIprpcReward(ctx, cur)
	verif_assert("distributed-month-removed", !curStill)
	next, nextFound := k.GetIprpcReward(ctx, cur+1)
	for _, sp := range []string{"SPA", "SPB"} {
		got, n := verifC42SpecFund(next, sp)
		verif_assert("next-month-holds-its-own-funds-plus-rolled-over-ones", got.IsEqual(wantNext[sp]) && n <= 1)
		if !wantNext[sp].IsZero() {
			verif_assert("next-month-exists-when-it-holds-funds", nextFound && next.Id == cur+1)
		}
	}
	_, later := k.GetIprpcReward(ctx, cur+2)
	verif_assert("no-funds-appear-in-later-months", !later)
	verif_assert("base-pays-cleared", len(k.GetAllBasePay(ctx)) == 0)
	// obligations stay backed: the pool still holds every fund promised to future months
	nextU, _ := verifC42SpecFund(next, "SPA")
	nextUB, _ := verifC42SpecFund(next, "SPB")
	verif_assert("pool-still-backs-future-months", e.bank.get(pool, verifC42Ulava).GTE(nextU.AmountOf(verifC42Ulava).Add(nextUB.AmountOf(verifC42Ulava))))
	if cuA1+cuA2 > 0 {
		verif_reach("served")
	} else {
		verif_reach("rolled-over")
	}
	verif_reach("end")
}

// VerifC42Fund: a funding of `duration` months for a spec on top of an arbitrary existing schedule.  The creator is charged
// exactly fund*duration (min cost*duration to the validators allocation pool, the rest to the IPRPC pool), and exactly the
// months cur+1 .. cur+duration gain (fund - min cost) for that spec; the current month and later months are untouched.
func VerifC42Fund() {
	twoDenoms := verif_param("denoms", 1) == 2
	f := math.NewIntFromBigInt(verif_nondet_ubig("fund.ulava", 40))
	g := math.ZeroInt()
	if twoDenoms {
		g = math.NewIntFromBigInt(verif_nondet_ubig("fund.ibc", 40))
	}
	E := math.NewIntFromBigInt(verif_nondet_ubig("existingNextMonthFund.ulava", 40))
	C := math.NewIntFromBigInt(verif_nondet_ubig("existingCurrentMonthFund.ulava", 40))
	balU := math.NewIntFromBigInt(verif_nondet_ubig("creatorBalance.ulava", 44))
	verif_assume(E.IsPositive() && C.IsPositive())
	specChoice := verif_nondet_range("spec", 0, 2)
	spec := []string{"SPA", "SPB", "SPX"}[specChoice]
	duration := uint64(verif_nondet_range("duration", 1, 3))
	existing := verif_nondet_range("existingSchedule", 0, 2) // 0: none, 1: next month funds SPA, 2: next month funds SPB

	e := verifC42Setup(0)
	k, ctx := e.k, e.ctx
	const cur = 3
	k.SetIprpcRewardsCurrentId(ctx, cur)
	k.SetIprpcReward(ctx, types.IprpcReward{Id: cur, SpecFunds: []types.Specfund{{Spec: "SPA", Fund: verifC42Coins(C, math.ZeroInt())}}})
	exSpec := ""
	if existing > 0 {
		exSpec = []string{"", "SPA", "SPB"}[existing]
		k.SetIprpcReward(ctx, types.IprpcReward{Id: cur + 1, SpecFunds: []types.Specfund{{Spec: exSpec, Fund: verifC42Coins(E, math.ZeroInt())}}})
	}
	creator := "creator"
	if !verif_symbolic() {
		creator = sdk.AccAddress("creator_____________").String()
	}
	addr, _ := sdk.AccAddressFromBech32(creator)
	acct := string(addr)
	e.bank.bal[acct+"|"+verifC42Ulava] = balU
	e.bank.bal[acct+"|"+verifC42Ibc] = g.MulRaw(3)
	pool, valPool := string(types.IprpcPoolName), string(types.ValidatorsRewardsAllocationPoolName)

	err := k.FundIprpc(ctx, creator, duration, verifC42Coins(f, g), spec)

	minCost := math.NewInt(100)
	dur := math.NewIntFromUint64(duration)
	if spec == "SPX" {
		verif_assert("disabled-spec-cannot-be-funded", err != nil)
	}
	if f.LT(minCost) {
		verif_assert("fund-below-min-cost-rejected", err != nil)
	}
	if spec != "SPX" && f.GTE(minCost) && balU.GTE(f.Mul(dur)) {
		verif_assert("affordable-funding-accepted", err == nil)
	}
	if err != nil {
		if spec == "SPX" || f.LT(minCost) {
			verif_assert("rejected-funding-moves-nothing", e.bank.get(acct, verifC42Ulava).Equal(balU) && e.bank.get(pool, verifC42Ulava).IsZero() && e.bank.get(valPool, verifC42Ulava).IsZero())
			for i := uint64(cur); i <= cur+4; i++ {
				r, found := k.GetIprpcReward(ctx, i)
				fu, _ := verifC42SpecFund(r, spec)
				if i == cur+1 && exSpec == spec {
					verif_assert("rejected-funding-schedules-nothing", fu.IsEqual(verifC42Coins(E, math.ZeroInt())))
				} else if i == cur && spec == "SPA" {
					verif_assert("rejected-funding-schedules-nothing", fu.IsEqual(verifC42Coins(C, math.ZeroInt())))
				} else {
					verif_assert("rejected-funding-schedules-nothing", fu.IsZero() && (found == (i == cur || (i == cur+1 && existing > 0))))
				}
			}
		}
		verif_reach("rejected")
		return
	}
	verif_assert("creator-charged-fund-times-duration", e.bank.get(acct, verifC42Ulava).Equal(balU.Sub(f.Mul(dur))) && e.bank.get(acct, verifC42Ibc).Equal(g.MulRaw(3).Sub(g.Mul(dur))))
	verif_assert("min-cost-to-validators-allocation-pool", e.bank.get(valPool, verifC42Ulava).Equal(minCost.Mul(dur)) && e.bank.get(valPool, verifC42Ibc).IsZero())
	verif_assert("rest-to-iprpc-pool", e.bank.get(pool, verifC42Ulava).Equal(f.Sub(minCost).Mul(dur)) && e.bank.get(pool, verifC42Ibc).Equal(g.Mul(dur)))
	promised := math.ZeroInt()
	for i := uint64(cur); i <= cur+4; i++ {
		r, found := k.GetIprpcReward(ctx, i)
		for _, sp := range []string{"SPA", "SPB"} {
			got, n := verifC42SpecFund(r, sp)
			want := sdk.NewCoins()
			if i == cur && sp == "SPA" {
				want = want.Add(verifC42Coins(C, math.ZeroInt())...)
			}
			if i == cur+1 && sp == exSpec {
				want = want.Add(verifC42Coins(E, math.ZeroInt())...)
			}
			if sp == spec && i >= cur+1 && i <= cur+duration {
				want = want.Add(verifC42Coins(f.Sub(minCost), g)...)
				promised = promised.Add(f.Sub(minCost))
			}
			verif_assert("exactly-the-funded-months-gain-the-fund", got.IsEqual(want) && n <= 1)
			if !want.IsZero() {
				verif_assert("funded-month-exists", found && r.Id == i)
			}
		}
	}
	verif_assert("pool-gain-equals-newly-promised-funds", e.bank.get(pool, verifC42Ulava).Equal(promised))
	verif_assert("current-month-id-unchanged", k.GetIprpcRewardsCurrentId(ctx) == cur)
	verif_reach("funded")
}
