package keeper

import (
	"time"

	tmdb "github.com/cometbft/cometbft-db"
	"github.com/cometbft/cometbft/libs/log"
	tmproto "github.com/cometbft/cometbft/proto/tendermint/types"
	"github.com/cosmos/cosmos-sdk/codec"
	codectypes "github.com/cosmos/cosmos-sdk/codec/types"
	"github.com/cosmos/cosmos-sdk/store"
	storetypes "github.com/cosmos/cosmos-sdk/store/types"
	sdk "github.com/cosmos/cosmos-sdk/types"
	timerstoretypes "github.com/lavanet/lava/v5/x/timerstore/types"
)

// expiries of the refill timer store as seen by the symbolic run (stub of TimerStore.GetFrontTimers)
var verifC21Expiries []uint64

func verifC21FrontTimers(ts *timerstoretypes.TimerStore, ctx sdk.Context, which timerstoretypes.TimerType) ([][]byte, []uint64, [][]byte) {
	return nil, verifC21Expiries, nil
}

// verifC21Keeper: symbolic run = zero keeper with GetFrontTimers stubbed; native replay = a real timer store on an
// in-memory multistore holding the same refill timer, so the real GetFrontTimers answers.
func verifC21Keeper(now int64, hasTimer bool, expiry uint64) (Keeper, sdk.Context) {
	header := tmproto.Header{Height: 100, Time: time.Unix(now, 0).UTC()}
	if verif_symbolic() {
		verifC21Expiries = nil
		if hasTimer {
			verifC21Expiries = []uint64{expiry}
		}
		return Keeper{}, sdk.Context{}.WithBlockHeader(header)
	}
	key := sdk.NewKVStoreKey("rewards")
	db := tmdb.NewMemDB()
	ms := store.NewCommitMultiStore(db)
	ms.MountStoreWithDB(key, storetypes.StoreTypeIAVL, db)
	if err := ms.LoadLatestVersion(); err != nil {
		panic(err)
	}
	ctx := sdk.NewContext(ms, header, false, log.NewNopLogger())
	ts := timerstoretypes.NewTimerStore(key, codec.NewProtoCodec(codectypes.NewInterfaceRegistry()), "refill")
	ts.WithCallbackByBlockTime(func(ctx sdk.Context, key, data []byte) {})
	if hasTimer {
		ts.AddTimerByBlockTime(ctx, expiry, []byte("refill"), []byte{})
	}
	return Keeper{refillRewardsPoolTS: *ts}, ctx
}

// VerifC21EndOfMonth: the validators' share of provider rewards is routed to the leftover pool iff the keeper
// says "end of month"; that must be true only within the last 24 hours before the next refill timer (or when no
// refill timer is pending), and false earlier in the month.
func VerifC21EndOfMonth() {
	now := verif_nondet_in("now", 1500000000, 4000000000)
	hasTimer := verif_nondet_bool("hasRefillTimer")
	left := verif_nondet_in("secondsToRefill", 1, 40*86400)
	expiry := uint64(now + left)
	k, ctx := verifC21Keeper(now, hasTimer, expiry)

	eom := k.isEndOfMonth(ctx)

	if !hasTimer {
		verif_assert("no-pending-refill-counts-as-end-of-month", eom)
		verif_reach("no-timer")
		return
	}
	if left < DAY_SECONDS {
		verif_assert("last-24h-before-refill-is-end-of-month", eom)
		verif_reach("last-day")
	}
	if left > DAY_SECONDS {
		verif_assert("more-than-24h-before-refill-is-not-end-of-month", !eom)
		verif_reach("earlier")
	}
	verif_observe("eom", eom)
}
