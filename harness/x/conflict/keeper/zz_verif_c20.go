package keeper

import (
	"fmt"

	"cosmossdk.io/math"
	"github.com/cometbft/cometbft/libs/log"
	"github.com/cosmos/cosmos-sdk/codec"
	storetypes "github.com/cosmos/cosmos-sdk/store/types"
	sdk "github.com/cosmos/cosmos-sdk/types"
	paramtypes "github.com/cosmos/cosmos-sdk/x/params/types"
	"github.com/lavanet/lava/v5/utils/sigs"
	"github.com/lavanet/lava/v5/x/conflict/types"
	epochstoragetypes "github.com/lavanet/lava/v5/x/epochstorage/types"
)

// ---- model keepers ----

type verifC20Epochs struct {
	types.EpochstorageKeeper
	epochStart uint64
	stakes     map[string]int64
}

func (m *verifC20Epochs) GetEpochStart(ctx sdk.Context) uint64 { return m.epochStart }
func (m *verifC20Epochs) EpochBlocks(ctx sdk.Context, block uint64) (uint64, error) { return 10, nil }
func (m *verifC20Epochs) BlocksToSave(ctx sdk.Context, block uint64) (uint64, error) {
	return 100, nil
}
func (m *verifC20Epochs) GetEpochStartForBlock(ctx sdk.Context, block uint64) (uint64, uint64, error) {
	return block - block%10, block % 10, nil
}
func (m *verifC20Epochs) GetStakeEntry(ctx sdk.Context, epoch uint64, chainID string, provider string) (epochstoragetypes.StakeEntry, bool) {
	s, ok := m.stakes[provider]
	if !ok {
		return epochstoragetypes.StakeEntry{}, false
	}
	return epochstoragetypes.StakeEntry{Address: provider, Chain: chainID, Stake: sdk.Coin{Denom: "ulava", Amount: math.NewInt(s)},
		DelegateTotal: sdk.Coin{Denom: "ulava", Amount: math.ZeroInt()}}, true
}

type verifC20Pairing struct {
	types.PairingKeeper
	jailed   []string
	slashed  []string
	credited []string
}

func (m *verifC20Pairing) JailEntry(ctx sdk.Context, address string, chainID string, jailStartBlock, jailBlocks uint64, bail sdk.Coin) error {
	m.jailed = append(m.jailed, address)
	return nil
}
func (m *verifC20Pairing) SlashEntry(ctx sdk.Context, address string, chainID string, percentage sdk.Dec) (sdk.Coin, error) {
	m.slashed = append(m.slashed, address)
	return sdk.Coin{Denom: "ulava", Amount: math.NewInt(100)}, nil
}
func (m *verifC20Pairing) CreditStakeEntry(ctx sdk.Context, chainID string, lookUpAddress sdk.AccAddress, creditAmount sdk.Coin) (bool, error) {
	m.credited = append(m.credited, lookUpAddress.String())
	return true, nil
}

type verifC20Staking struct{ types.StakingKeeper }

func (verifC20Staking) BondDenom(ctx sdk.Context) string { return "ulava" }

// stubs of the symbolic run
var verifC20Params types.Params

func verifC20MajorityPercent(k Keeper, ctx sdk.Context) sdk.Dec { return verifC20Params.MajorityPercent }
func verifC20VotePeriod(k Keeper, ctx sdk.Context) uint64       { return verifC20Params.VotePeriod }
func verifC20Rewards(k Keeper, ctx sdk.Context) types.Rewards   { return verifC20Params.Rewards }
func verifC20Logger(k Keeper, ctx sdk.Context) log.Logger       { return nil }
func verifC20FromBech32(address string) (sdk.AccAddress, error) {
	if len(address) != 2 || address[0] != 'v' {
		return nil, fmt.Errorf("bad address")
	}
	return sdk.AccAddress([]byte(address)), nil
}
func verifC20AccString(aa sdk.AccAddress) string { return string(aa) }
func verifC20Sha(data []byte) []byte            { return data } // collision-freedom of SHA-256 assumed (identity)

func verifC20Contains(l []string, s string) bool {
	for _, x := range l {
		if x == s {
			return true
		}
	}
	return false
}

// VerifC20Messages: one conflict vote with three listed voters in an arbitrary state (phase, deadline, each voter's
// recorded result and commit hash, stakes) receives one input: a commit message, a reveal message (from a listed
// voter or a stranger, with an arbitrary nonce/hash), or a block begin at an arbitrary height that is or is not an
// epoch start.
func VerifC20Messages() { verifC20Vote(0) }

// VerifC20BlockBegin: the same vote at a block begin (see VerifC20Messages for the state space)
func VerifC20BlockBegin() { verifC20Vote(1) }

func verifC20Vote(mode int) {
	key := storetypes.NewKVStoreKey(types.StoreKey)
	tkey := storetypes.NewTransientStoreKey("transient_conflict_params")
	ctx := verifCtx(100, 1700000000, key, tkey)
	cdc := verifCdc()
	addrs := []string{"v1", "v2", "v3", "v9"} // three listed voters and a stranger
	if !verif_symbolic() {
		for i := range addrs {
			_, a := sigs.GenerateFloatingKey()
			addrs[i] = a.String()
		}
	}
	epochs := &verifC20Epochs{stakes: map[string]int64{}}
	pairing := &verifC20Pairing{}
	k := Keeper{cdc: cdc, storeKey: key, epochstorageKeeper: epochs, pairingKeeper: pairing, stakingKeeper: verifC20Staking{}}
	params := types.DefaultParams()
	if verif_symbolic() {
		verifC20Params = params
	} else {
		k.paramstore = paramtypes.NewSubspace(cdc, codec.NewLegacyAmino(), key, tkey, "conflict").WithKeyTable(types.ParamKeyTable())
		k.SetParams(ctx, params)
	}
	srv := msgServer{Keeper: k}

	state := int64(verif_nondet_range("vote.state", 0, 1))            // commit / reveal phase
	deadline := uint64(100)
	if mode == 1 && verif_nondet_bool("vote.deadlineNotReachedYet") {
		deadline = 110
	}
	results := make([]int64, 3)
	stakes := make([]int64, 3)
	var total int64
	vote := types.ConflictVote{Index: "vote1", ChainID: "LAV1", VoteState: state, VoteStartBlock: 80, VoteDeadline: deadline,
		FirstProvider: types.Provider{Account: addrs[0], Response: []byte{0xA}}, SecondProvider: types.Provider{Account: addrs[1], Response: []byte{0xB}}}
	profile := [][3]int64{{10, 20, 30}, {51, 30, 19}, {1, 1, 1}, {40, 30, 30}, {50, 25, 25}}[verif_nondet_range("stakes.profile", 0, verif_param("stake_profiles", 5)-1)]
	for i := 0; i < 3; i++ {
		if mode == 0 && i > 0 {
			results[i] = types.NoVote // message handling only looks at the sender's own record (voter 0 or a stranger sends)
		} else if i == 2 {
			results[i] = []int64{types.NoVote, types.Provider0, types.Provider1}[verif_nondet_range("voter.result", 0, 2)]
		} else {
			results[i] = int64(verif_nondet_range("voter.result", 0, 4)) // NoVote, Commit, Provider0, Provider1, None
		}
		stakes[i] = profile[i]
		total += stakes[i]
		epochs.stakes[addrs[i]] = stakes[i]
		v := types.Vote{Address: addrs[i], Result: results[i]}
		if results[i] != types.NoVote {
			// committed to data byte 0xA with nonce 5
			v.Hash = types.CommitVoteData(5, []byte{0xA}, addrs[i])
		}
		vote.Votes = append(vote.Votes, v)
	}
	k.SetConflictVote(ctx, vote)

	input := 2 // block begin
	if mode == 0 {
		input = verif_nondet_range("input", 0, 1) // 0 commit message, 1 reveal message
	}
	switch input {
	case 0:
		who := 3 * verif_nondet_range("message.creatorIsStranger", 0, 1) // listed voter 0 or the stranger
		_, err := srv.ConflictVoteCommit(sdk.WrapSDKContext(ctx), &types.MsgConflictVoteCommit{Creator: addrs[who], VoteID: "vote1", Hash: []byte{1, 2}})
		after, found := k.GetConflictVote(ctx, "vote1")
		verif_assert("vote-still-there", found && after.VoteState == state && after.VoteDeadline == deadline)
		if err == nil {
			verif_assert("commit-accepted-only-in-commit-phase-from-a-listed-voter-who-has-not-committed", state == types.StateCommit && who < 3 && results[who] == types.NoVote)
			verif_assert("commit-recorded", after.Votes[who].Result == types.Commit && len(after.Votes[who].Hash) == 2)
			verif_reach("commit-accepted")
		} else {
			verif_assert("valid-commit-accepted", !(state == types.StateCommit && who < 3 && results[who] == types.NoVote))
			for i := 0; i < 3; i++ {
				verif_assert("rejected-commit-changes-nothing", after.Votes[i].Result == results[i])
			}
			verif_reach("commit-rejected")
		}
	case 1:
		who := 3 * verif_nondet_range("message.creatorIsStranger", 0, 1)
		nonce := int64(verif_nondet_range("reveal.nonce", 5, 6))
		data := byte(verif_nondet_range("reveal.dataHash", 0xA, 0xC))
		_, err := srv.ConflictVoteReveal(sdk.WrapSDKContext(ctx), &types.MsgConflictVoteReveal{Creator: addrs[who], VoteID: "vote1", Nonce: nonce, Hash: []byte{data}})
		after, found := k.GetConflictVote(ctx, "vote1")
		verif_assert("vote-still-there", found && after.VoteState == state && after.VoteDeadline == deadline)
		valid := state == types.StateReveal && who < 3 && results[who] == types.Commit && nonce == 5 && data == 0xA
		if err == nil {
			verif_assert("reveal-counted-only-in-reveal-phase-matching-the-voters-own-commit", valid)
			verif_assert("reveal-recorded-for-the-revealed-data", after.Votes[who].Result == types.Provider0)
			verif_reach("reveal-accepted")
		} else {
			verif_assert("valid-reveal-accepted", !valid)
			for i := 0; i < 3; i++ {
				verif_assert("rejected-reveal-changes-nothing", after.Votes[i].Result == results[i])
			}
			verif_reach("reveal-rejected")
		}
	case 2:
		height := uint64(100)
		epochs.epochStart = height
		if !verif_nondet_bool("block.isEpochStart") {
			epochs.epochStart = 90
			height = 97
			deadline = 95 // (the deadline has passed, but this block is not an epoch start)
			v, _ := k.GetConflictVote(ctx, "vote1")
			v.VoteDeadline = deadline
			k.SetConflictVote(ctx, v)
		}
		bctx := ctx.WithBlockHeight(int64(height))
		k.CheckAndHandleAllVotes(bctx)
		after, found := k.GetConflictVote(bctx, "vote1")
		due := epochs.epochStart == height && deadline <= height
		if !due {
			verif_assert("vote-untouched-before-its-deadline-or-off-epoch-start", found && after.VoteState == state && after.VoteDeadline == deadline && len(pairing.credited) == 0 && len(pairing.slashed) == 0)
			verif_reach("not-due")
			return
		}
		if state == types.StateCommit {
			verif_assert("commit-phase-moves-to-reveal-with-a-later-deadline", found && after.VoteState == types.StateReveal && after.VoteDeadline > height && len(pairing.credited) == 0)
			verif_reach("to-reveal")
			return
		}
		verif_assert("reveal-phase-closes-the-vote", !found)
		var tally [5]int64
		for i := 0; i < 3; i++ {
			tally[results[i]] += stakes[i]
		}
		winner := int64(-1)
		for opt := int64(types.Provider0); opt <= types.NoneOfTheProviders; opt++ {
			if 2*tally[opt] > total {
				winner = opt
			}
		}
		for i := 0; i < 3; i++ {
			revealed := results[i] >= types.Provider0
			if !revealed {
				verif_assert("voter-who-never-revealed-is-punished-as-a-non-voter", verifC20Contains(pairing.jailed, addrs[i]) && verifC20Contains(pairing.slashed, addrs[i]))
			}
			// a listed voter is rewarded only for voting with the option that holds more than half of the stake
			// (the first/second provider accounts are also voters here: they may be credited as the winning provider)
			if verifC20Contains(pairing.credited, addrs[i]) {
				verif_assert("credit-only-with-a-stake-majority", winner >= 0)
				isWinningProvider := (winner == types.Provider0 && i == 0) || (winner == types.Provider1 && i == 1)
				verif_assert("credited-voter-voted-for-the-majority-option-or-is-the-winning-provider", results[i] == winner || isWinningProvider)
			} else if winner >= 0 && results[i] == winner {
				verif_assert("majority-voter-is-rewarded", false)
			}
		}
		if winner < 0 {
			verif_assert("no-majority-no-rewards", len(pairing.credited) == 0)
			verif_reach("unresolved")
		} else {
			verif_reach("resolved")
		}
	}
}
