package types

import (
	"time"

	storetypes "github.com/cosmos/cosmos-sdk/store/types"
	sdk "github.com/cosmos/cosmos-sdk/types"
)

type verifC15Fired struct {
	tick int
	key  byte
	data byte
}

type verifC15Timer struct {
	expiry uint64
	key    byte
	data   byte
	live   bool
}

const verifC15Base = 1700000000

// VerifC15Ticks: n timers (block-height or block-time kind) with expiries in 5..7 and one-byte keys (possibly
// colliding: the later add overwrites the data) are added through the real API at height/time 4, one of them may be
// deleted again, then two ticks run at arbitrary non-decreasing points in 4..8.  The callback of the first timer
// may add a further timer or delete a pending one.  Every live timer fires exactly once, at the first tick that
// reaches its expiry, in (expiry, key) order; deleted timers never fire; what has not expired is still there.
func VerifC15Ticks() {
	n := verif_param("timers", 2)
	byTime := verif_nondet_bool("kind.blockTime")
	key := storetypes.NewKVStoreKey("timers")
	ctx := verifCtx(4, verifC15Base+4, key)
	at := func(c sdk.Context, v int) sdk.Context {
		if byTime {
			return c.WithBlockTime(time.Unix(int64(verifC15Base+v), 0).UTC())
		}
		return c.WithBlockHeight(int64(v))
	}
	val := func(v uint64) uint64 {
		if byTime {
			return verifC15Base + v
		}
		return v
	}
	ts := NewTimerStore(key, verifCdc(), "pfx")
	add := func(c sdk.Context, expiry uint64, k, d byte) {
		if byTime {
			ts.AddTimerByBlockTime(c, val(expiry), []byte{k}, []byte{d})
		} else {
			ts.AddTimerByBlockHeight(c, val(expiry), []byte{k}, []byte{d})
		}
	}
	has := func(c sdk.Context, expiry uint64, k byte) bool {
		if byTime {
			return ts.HasTimerByBlockTime(c, val(expiry), []byte{k})
		}
		return ts.HasTimerByBlockHeight(c, val(expiry), []byte{k})
	}
	del := func(c sdk.Context, expiry uint64, k byte) {
		if byTime {
			ts.DelTimerByBlockTime(c, val(expiry), []byte{k})
		} else {
			ts.DelTimerByBlockHeight(c, val(expiry), []byte{k})
		}
	}

	// reference model
	var model []verifC15Timer
	put := func(expiry uint64, k, d byte) {
		for i := range model {
			if model[i].live && model[i].expiry == expiry && model[i].key == k {
				model[i].data = d
				return
			}
		}
		model = append(model, verifC15Timer{expiry, k, d, true})
	}
	drop := func(expiry uint64, k byte) bool {
		for i := range model {
			if model[i].live && model[i].expiry == expiry && model[i].key == k {
				model[i].live = false
				return true
			}
		}
		return false
	}

	cbAction := verif_nondet_range("callbackOfFirstTimer", 0, verif_param("callback_actions", 0)) // 0 nothing, 1 add a timer, 2 delete the last timer
	curTick := 0
	var curT uint64
	var fired []verifC15Fired
	var lastExpiry uint64
	var lastKey byte
	cb := func(c sdk.Context, k, d []byte) {
		fired = append(fired, verifC15Fired{curTick, k[0], d[0]})
		if d[0] == 1 && cbAction == 1 {
			// a callback may only add timers that expire in the future (AddTimerBy* panics otherwise, by contract)
			add(c, curT+1, 'z', 9)
			put(curT+1, 'z', 9)
		}
		if d[0] == 1 && cbAction == 2 && has(c, lastExpiry, lastKey) {
			del(c, lastExpiry, lastKey)
			drop(lastExpiry, lastKey)
		}
	}
	ts.WithCallbackByBlockHeight(cb)
	ts.WithCallbackByBlockTime(cb)

	for i := 0; i < n; i++ {
		e := uint64(verif_nondet_range("timer.expiry", 5, 7))
		k := verif_nondet_byte("timer.key")
		verif_assume(k >= 'a' && k <= 'c')
		add(ctx, e, k, byte(i+1))
		put(e, k, byte(i+1))
		lastExpiry, lastKey = e, k
	}
	if verif_nondet_bool("deleteFirstAgain") && has(ctx, model[0].expiry, model[0].key) {
		del(ctx, model[0].expiry, model[0].key)
		drop(model[0].expiry, model[0].key)
	}

	t1 := verif_nondet_range("tick1", 4, 8)
	t2 := verif_nondet_range("tick2", t1, 9)
	ticks := []int{t1, t2}
	pos := 0
	for ti, t := range ticks {
		curTick, curT = ti, uint64(t)
		// expected: live timers with expiry <= t in (expiry, key) order, taking into account what the callback does
		// while the tick runs (the model is updated by the callback itself, so re-scan after every firing)
		c := at(ctx, t)
		ts.Tick(c)
		for {
			best := -1
			for i := range model {
				if !model[i].live || model[i].expiry > uint64(t) {
					continue
				}
				if best < 0 || model[i].expiry < model[best].expiry || (model[i].expiry == model[best].expiry && model[i].key < model[best].key) {
					best = i
				}
			}
			if best < 0 {
				break
			}
			verif_assert("due-timer-fires-at-first-tick-reaching-expiry-in-order", pos < len(fired) && fired[pos].tick == ti && fired[pos].key == model[best].key && fired[pos].data == model[best].data)
			model[best].live = false
			pos++
		}
		verif_assert("nothing-else-fires", pos == len(fired))
		for i := range model {
			if model[i].live {
				verif_assert("unexpired-timer-still-pending", has(c, model[i].expiry, model[i].key))
			}
		}
		if byTime {
			verif_assert("next-timeout-not-after-earliest-pending", verifC15NextOK(ts.GetNextTimeoutBlockTime(c), model, verifC15Base))
		} else {
			verif_assert("next-timeout-not-after-earliest-pending", verifC15NextOK(ts.GetNextTimeoutBlockHeight(c), model, 0))
		}
	}
	verif_reach("end")
	if len(fired) > 0 {
		verif_reach("fired")
	}
}

func verifC15NextOK(next uint64, model []verifC15Timer, base uint64) bool {
	for i := range model {
		if model[i].live && next > base+model[i].expiry {
			return false
		}
	}
	return true
}
