package rand

import (
	cryptorand "crypto/rand"
	"crypto/sha256"
	"encoding/binary"
	"math/big"
	mathrand "math/rand"
	"sync"
)

// VerifSource, when set by a native replay, replaces the seeded source of New (this file is a copy of
// /repo/utils/rand/rand.go used through go test -overlay by the native replay of check C40 only).
var VerifSource mathrand.Source

func generateSeed(data []byte) int64 {
	sum256 := sha256.Sum256(data)
	seed := int64(binary.LittleEndian.Uint64(sum256[0:8]))
	return seed
}

// New returns a new deterministic PRNG instance seeded from the given data.
// This is used for consensus-critical operations where deterministic randomness is required.
func New(data []byte) *mathrand.Rand {
	if VerifSource != nil { // replay of a solver model: the draws come from the harness (see /verif/harness/utils/rand)
		return mathrand.New(VerifSource)
	}
	seed := generateSeed(data)
	source := mathrand.NewSource(seed)
	return mathrand.New(source)
}

// Seed re-seeds an existing deterministic PRNG instance with new data.
func Seed(rng *mathrand.Rand, data []byte) {
	seed := generateSeed(data)
	rng.Seed(seed)
}

// threadSafeRand wraps crypto/rand for thread-safe, cryptographically secure random number generation.
// This is used for the global protocolRand instance where security and uniformity are prioritized
// over determinism.
type threadSafeRand struct {
	lock sync.Mutex // we have no reads, just writes, so using a sync.Mutex.
}

func (t *threadSafeRand) Intn(n int) int {
	t.lock.Lock()
	defer t.lock.Unlock()
	if n <= 0 {
		panic("invalid argument to Intn")
	}
	maxVal := big.NewInt(int64(n))
	result, err := cryptorand.Int(cryptorand.Reader, maxVal)
	if err != nil {
		panic("crypto/rand failed: " + err.Error())
	}
	return int(result.Int64())
}

func (t *threadSafeRand) Float64() float64 {
	t.lock.Lock()
	defer t.lock.Unlock()
	// Generate a random 53-bit integer (mantissa size for float64)
	// to ensure uniform distribution across [0, 1)
	maxVal := big.NewInt(1 << 53)
	n, err := cryptorand.Int(cryptorand.Reader, maxVal)
	if err != nil {
		panic("crypto/rand failed: " + err.Error())
	}
	// Convert to float64 in range [0, 1)
	return float64(n.Int64()) / float64(int64(1<<53))
}

func (t *threadSafeRand) Uint32() uint32 {
	t.lock.Lock()
	defer t.lock.Unlock()
	maxVal := big.NewInt(1 << 32)
	result, err := cryptorand.Int(cryptorand.Reader, maxVal)
	if err != nil {
		panic("crypto/rand failed: " + err.Error())
	}
	return uint32(result.Uint64())
}

func (t *threadSafeRand) Uint64() uint64 {
	t.lock.Lock()
	defer t.lock.Unlock()
	// Generate 8 random bytes and convert to uint64
	var b [8]byte
	_, err := cryptorand.Read(b[:])
	if err != nil {
		panic("crypto/rand failed: " + err.Error())
	}
	return binary.LittleEndian.Uint64(b[:])
}

func (t *threadSafeRand) Int63() int64 {
	t.lock.Lock()
	defer t.lock.Unlock()
	// Int63 returns a non-negative int64, so max is 2^63
	maxVal := new(big.Int).SetUint64(1 << 63)
	result, err := cryptorand.Int(cryptorand.Reader, maxVal)
	if err != nil {
		panic("crypto/rand failed: " + err.Error())
	}
	return result.Int64()
}

func (t *threadSafeRand) Int63n(n int64) int64 {
	t.lock.Lock()
	defer t.lock.Unlock()
	if n <= 0 {
		panic("invalid argument to Int63n")
	}
	maxVal := big.NewInt(n)
	result, err := cryptorand.Int(cryptorand.Reader, maxVal)
	if err != nil {
		panic("crypto/rand failed: " + err.Error())
	}
	return result.Int64()
}

var protocolRand *threadSafeRand

func Initialized() bool {
	return protocolRand != nil
}

func InitRandomSeed() {
	// Seed is no longer needed as crypto/rand is self-seeding
	// This function is kept for API compatibility
	protocolRand = &threadSafeRand{}
}

func SetSpecificSeed(seed int64) {
	// Seed is no longer used as crypto/rand is self-seeding and non-deterministic
	// This function is kept for API compatibility but has no effect
	// For deterministic randomness, use New(data) instead
	_ = seed
	protocolRand = &threadSafeRand{}
}

func PanicIfProtocolRandNotInitialized() {
	if protocolRand == nil {
		panic("rand.InitRandomSeed() must be called before using the rand package")
	}
}

func Intn(n int) int {
	PanicIfProtocolRandNotInitialized()
	return protocolRand.Intn(n)
}

func Float64() float64 {
	PanicIfProtocolRandNotInitialized()
	return protocolRand.Float64()
}

func Uint32() uint32 {
	PanicIfProtocolRandNotInitialized()
	return protocolRand.Uint32()
}

func Uint64() uint64 {
	PanicIfProtocolRandNotInitialized()
	return protocolRand.Uint64()
}

func Int63() int64 {
	PanicIfProtocolRandNotInitialized()
	return protocolRand.Int63()
}

func Int63n(n int64) int64 {
	PanicIfProtocolRandNotInitialized()
	return protocolRand.Int63n(n)
}
