package c

func VerifSTSub() {
	l := verif_nondet_u64("latest")
	r := Sub126(l)
	// wrong claim: r <= l (wraps for l < 126)
	verif_assert("sub-no-wrap", r <= l)
}

func VerifSTAbs() {
	a := verif_nondet_i64("a")
	b := verif_nondet_i64("b")
	verif_assume(a > -(1<<40) && a < 1<<40 && b > -(1<<40) && b < 1<<40)
	d := AbsDiff(a, b)
	verif_assert("abs-nonneg", d >= 0)
	verif_assert("abs-sym", d == AbsDiff(b, a))
	verif_observe("d", d)
	verif_reach("end")
}

func VerifSTSum() {
	n := verif_nondet_range("n", 0, 5)
	verif_assert("gauss", SumTo(n) == n*(n+1)/2)
	verif_reach("end")
}

func VerifSTMax() {
	xs := []uint64{verif_nondet_u64("x0"), verif_nondet_u64("x1"), verif_nondet_u64("x2")}
	m := MaxOf(xs)
	verif_assert("max-ge", m >= xs[0] && m >= xs[1] && m >= xs[2])
	verif_assert("max-in", m == xs[0] || m == xs[1] || m == xs[2])
	verif_reach("end")
}

func VerifSTDiv() {
	a := verif_nondet_i64("a")
	b := verif_nondet_i64("b")
	q, err := SafeDiv(a, b)
	if b < 0 {
		verif_assert("neg-err", err == ErrNeg)
	} else if b == 0 {
		verif_assert("zero-recovered", err != nil && q == 0)
		verif_reach("recovered")
	} else {
		verif_assert("div-ok", err == nil && q == a/b)
	}
}

func VerifSTMap() {
	m := map[string]int{}
	k := verif_nondet_string("k", 1)
	n := Count(m, []string{"a", k, "b"})
	verif_assert("count", (n == 3) == (k != "a" && k != "b"))
	verif_assert("count23", n == 2 || n == 3)
	verif_reach("end")
}

func VerifSTSort() {
	ps := []Pt{{X: verif_nondet_i64("p0")}, {X: verif_nondet_i64("p1")}, {X: verif_nondet_i64("p2")}}
	SortPts(ps)
	verif_assert("sorted", ps[0].X <= ps[1].X && ps[1].X <= ps[2].X)
	verif_reach("end")
}

func VerifSTIface() {
	var s Shape
	w := verif_nondet_u64("w")
	if verif_nondet_bool("rect") {
		s = Rect{W: w, H: 2}
	} else {
		s = &Sq{S: uint32(w)}
	}
	a := s.Area()
	if r, ok := s.(Rect); ok {
		verif_assert("rect-area-wrong-claim", a >= r.W) // fails: 2*w wraps
	} else {
		verif_assert("sq-area", a <= (1<<32-1)*(1<<32-1))
	}
}

func VerifSTMisc() {
	verif_assert("join", JoinAll("a", "b") == "a|b")
	s := verif_nondet_string("s", 2)
	j := JoinAll(s, "x")
	verif_assert("joinlen", len(j) == 4 && j[2] == '|')
	verif_assert("generic", Generic([]string{"x", "y"}, "y") == 1 && Generic([]uint64{1, 2}, 3) == -1)
	f := Closure(10)
	f(1)
	verif_assert("closure", f(2) == 13)
	verif_assert("global-map", Lookup("b") == 2 && Lookup("z") == 0)
	x := verif_nondet_u32("x")
	k := uint(verif_nondet_u32("k"))
	verif_assert("shift", Shifty(x, k) == (x<<3|x>>29)+uint32(k%8))
	a := verif_nondet_i32("a")
	b := verif_nondet_i32("b")
	verif_assume(b == 7 || b == -7)
	verif_assert("divrem", SignedDiv(a, b)*b+SignedRem(a, b) == a)
	verif_assert("remsign", (a >= 0) == (SignedRem(a, b) >= 0) || SignedRem(a, b) == 0)
	verif_reach("end")
}
