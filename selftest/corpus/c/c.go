package c

import (
	"errors"
	"sort"
	"strings"
)

type Pt struct {
	X, Y int64
	Name string
}

type Shape interface {
	Area() uint64
}

type Rect struct{ W, H uint64 }

func (r Rect) Area() uint64 { return r.W * r.H }

type Sq struct{ S uint32 }

func (s *Sq) Area() uint64 { return uint64(s.S) * uint64(s.S) }

func Sub126(latest uint64) uint64 { return latest - 126 }

func AbsDiff(a, b int64) int64 {
	if a > b {
		return a - b
	}
	return b - a
}

func SumTo(n int) int {
	s := 0
	for i := 1; i <= n; i++ {
		s += i
	}
	return s
}

func MaxOf(xs []uint64) (m uint64) {
	for _, x := range xs {
		if x > m {
			m = x
		}
	}
	return
}

var ErrNeg = errors.New("negative")

func SafeDiv(a, b int64) (q int64, err error) {
	defer func() {
		if r := recover(); r != nil {
			err = errors.New("recovered")
		}
	}()
	if b < 0 {
		return 0, ErrNeg
	}
	return a / b, nil
}

func Count(m map[string]int, keys []string) int {
	for _, k := range keys {
		m[k]++
	}
	return len(m)
}

func SortPts(ps []Pt) {
	sort.Slice(ps, func(i, j int) bool { return ps[i].X < ps[j].X })
}

func JoinAll(a, b string) string { return strings.Join([]string{a, b}, "|") }

func Generic[T comparable](xs []T, x T) int {
	for i, v := range xs {
		if v == x {
			return i
		}
	}
	return -1
}

func Closure(n uint64) func(uint64) uint64 {
	acc := n
	return func(d uint64) uint64 { acc += d; return acc }
}

var table = map[string]uint64{"a": 1, "b": 2}

func Lookup(k string) uint64 { return table[k] }

func Shifty(x uint32, k uint) uint32 { return x<<3 | x>>29 + uint32(k&7) }

func SignedDiv(a, b int32) int32 { return a / b }
func SignedRem(a, b int32) int32 { return a % b }
