module corpus

go 1.23
