#!/usr/bin/env python3
# show only the definitions reachable from the assertions of a standalone query file
import re,sys
lines=open(sys.argv[1]).read().split('\n')
defs={}
for l in lines:
    m=re.match(r'\(define-fun (t\d+) \(\) (\w+) (.*)\)$',l)
    if m: defs[m.group(1)]=(m.group(2),m.group(3))
asserts=[l for l in lines if l.startswith('(assert t') or l.startswith('(assert (not')]
seen=set()
def visit(t):
    if t in seen or t not in defs: return
    seen.add(t)
    for u in re.findall(r't\d+',defs[t][1]): visit(u)
for a in asserts:
    for u in re.findall(r't\d+',a): visit(u)
for l in lines:
    if l.startswith('(declare-const') or (l.startswith('(assert (') and not l.startswith('(assert (not')): print(l)
for t in sorted(seen,key=lambda x:int(x[1:])): print(t,defs[t][1])
print(' '.join(a[8:-1] for a in asserts))
