#!/usr/bin/env python3
# feed an engine SMT log to a solver command-by-command and time every check-sat
import subprocess, sys, time, re
path = sys.argv[1]; solver = sys.argv[2:] or ["z3","-in"]
cap = 10000
p = subprocess.Popen(solver, stdin=subprocess.PIPE, stdout=subprocess.PIPE, text=True, bufsize=1)
n=0; slow=[]
buf=[]
for line in open(path):
    if line.startswith(';'): continue
    if 'set-option :timeout' in line:
        line = "(set-option :timeout %d)\n" % cap
    p.stdin.write(line); 
    if line.startswith('(check-sat'):
        p.stdin.flush(); t=time.time(); r=p.stdout.readline().strip(); dt=time.time()-t; n+=1
        if dt>1.0 or r not in('sat','unsat'): slow.append((n,r,dt)); print(n,r,"%.2f"%dt, flush=True)
    elif line.startswith('(get-value'):
        p.stdin.flush()
        depth=0; started=False
        while True:
            l=p.stdout.readline()
            depth+=l.count('(')-l.count(')'); started=True
            if depth<=0: break
print("total",n,"slow",len(slow))
