#!/usr/bin/env python3
# extract query number N from an engine SMT log as a standalone file (definitions + that push/pop block)
import sys
path=sys.argv[1]; N=int(sys.argv[2])
defs=[]; n=0; block=[]; inblock=False
for line in open(path):
    if line.startswith(';'): continue
    if line.startswith('(push'): inblock=True; block=[]; continue
    if line.startswith('(pop'): inblock=False; continue
    if inblock:
        block.append(line)
        if line.startswith('(check-sat'):
            n+=1
            if n==N:
                sys.stdout.write(''.join(defs)); sys.stdout.write(''.join(b for b in block if not b.startswith('(get-value')))
                sys.exit(0)
    else:
        if 'set-option :timeout' in line: continue
        defs.append(line)
