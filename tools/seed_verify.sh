#!/bin/bash
# usage: tools/seed_verify.sh <seed-name> <worktree> <pkg-rel-path-of-demo> [extra pkgs for existing-suite run...]
# Confirms a candidate breaking change produced in a scratch worktree: (a) demo passes without the patch, (b) fails with it,
# (c) the tree builds, (d) the existing tests of the touched packages (demo excluded) pass with it. On success the patch,
# the demo and a meta.json skeleton are stored under /verif/seeded/<seed-name>/.
set -u
name=$1; wt=$2; demopkg=$3; shift 3
export GOFLAGS=-mod=mod GOPROXY=off GOSUMDB=off GOTOOLCHAIN=local
cd "$wt" || exit 2
[ -f _seed/patch.diff ] || { echo "no _seed/patch.diff"; exit 2; }
demo=$(ls _seed/*_test.go | head -1)
git checkout -q -- . ; git status --short | grep -v '^??' && { echo "tree not clean"; exit 2; }
cp "$demo" "$demopkg/zz_seed_demo_test.go"
pat=$(grep -o '^func Test[A-Za-z0-9_]*' "$demo" | sed 's/^func //' | paste -sd'|')
pat="^($pat)\$"
log=_seed/verify.log; : > $log
echo "== (a) demo without patch" | tee -a $log
go test -vet=off -count=1 -run "$pat" ./$demopkg >>$log 2>&1; a=$?
echo "exit=$a" | tee -a $log
git apply _seed/patch.diff || { echo "patch does not apply"; exit 2; }
touched=$(git diff --name-only | xargs -n1 dirname | sort -u | sed 's#^#./#' | tr '\n' ' ')
echo "== (b) demo with patch" | tee -a $log
go test -vet=off -count=1 -run "$pat" ./$demopkg >>$log 2>&1; b=$?
echo "exit=$b" | tee -a $log
echo "== (c) build" | tee -a $log
go build ./... >>$log 2>&1; c=$?
echo "exit=$c" | tee -a $log
echo "== (d) existing tests with patch: $touched $*" | tee -a $log
go test -vet=off -count=1 -timeout 20m -skip "$pat" $touched "$@" >>$log 2>&1; d=$?
echo "exit=$d" | tee -a $log
if [ $a -eq 0 ] && [ $b -ne 0 ] && [ $c -eq 0 ] && [ $d -eq 0 ]; then
  out=/verif/seeded/$name; mkdir -p $out
  cp _seed/patch.diff $out/patch.diff; cp "$demo" $out/; [ -f _seed/notes.md ] && cp _seed/notes.md $out/notes.md
  cp $log $out/verify.log
  echo "CONFIRMED $name -> $out (demo pkg $demopkg; suites: $touched $*)"
else
  echo "NOT CONFIRMED a=$a b=$b c=$c d=$d (see $wt/$log)"; tail -30 $log
fi
