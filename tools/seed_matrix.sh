#!/bin/bash
# Runs every seeded change under /verif/seeded against the quick check of the property it breaks (scratch copy of
# /repo, scratch evidence dir) and prints one DETECTED/MISSED line per seed.  usage: tools/seed_matrix.sh [-j N] [seed ...]
cd "$(dirname "$0")/.." || exit 2
J=3; if [ "$1" = "-j" ]; then J=$2; shift 2; fi
seeds="$*"; [ -z "$seeds" ] && seeds=$(ls seeded)
for s in $seeds; do
  prop=$(python3 -c "import json;print(json.load(open('seeded/$s/meta.json'))['property'])")
  echo "$s $prop"
done | xargs -P $J -L 1 sh -c 'tools/seed_run.sh $0 $1 2>&1 | head -1'
