#!/bin/bash
# Sanity run (not a registered check): applies one small semantic mutation per property to a scratch copy of /repo
# and expects the property's quick check to report a VIOLATION there. Scratch copy lives under $TMPDIR and is removed.
# usage: tools/mutation_sanity.sh [ID ...]
cd "$(dirname "$0")/.." || exit 2
S=${TMPDIR:-/tmp}/verif-mut-$$
trap 'rm -rf "$S" "$S.ev"' EXIT
mut() { # id file python-regex-from to
  local id=$1 f=$2 from=$3 to=$4
  rm -rf "$S"; mkdir -p "$S"; rsync -a --exclude .git /repo/ "$S/"
  python3 - "$S/$f" "$from" "$to" <<'PY' || { echo "MUT $id: pattern not found"; return; }
import sys
p,a,b=sys.argv[1:4]
s=open(p).read()
if a not in s: sys.exit(1)
open(p,'w').write(s.replace(a,b,1))
PY
  out=$(VERIF_REPO="$S" VERIF_DIR=/verif VERIF_EVIDENCE_DIR="$S.ev" ./bin/gosym check "$id" --tier quick 2>&1)
  if echo "$out" | grep -q "^VIOLATION property=$id"; then echo "MUT $id: detected ($(echo "$out" | grep -m1 '^VIOLATION' | cut -c1-160))"; else echo "MUT $id: NOT detected"; echo "$out" | tail -5 | cut -c1-400; fi
}
want() { [ $# -eq 0 ] && return 0; }
ids=" $* "
run() { [ "$ids" = "  " ] || [[ "$ids" == *" $1 "* ]]; }
run C04 && mut C04 x/pairing/keeper/limitConsumer.go 'return epochCuLimit - originalTotalCUInEpochForUserProvider, nil' 'return relayCU, nil'
run C08 && mut C08 x/dualstaking/keeper/delegator_reward.go 'QuoInt(sdk.NewInt(100))' 'QuoInt(sdk.NewInt(10))'
run C11 && mut C11 x/subscription/keeper/cu_tracker.go '	return totalMonthlyReward
' '	return totalMonthlyReward.AddRaw(1)
'
run C21 && mut C21 x/rewards/keeper/providers.go 'return DAY_SECONDS > NextExpiery' 'return ctx.BlockTime().UTC().Unix()+DAY_SECONDS > NextExpiery'
run C23 && mut C23 x/dualstaking/keeper/delegate_credit.go 'QuoRaw(monthHours)' 'QuoRaw(monthHours - 1)'
run C25 && mut C25 x/pairing/types/relay_session.go '	rs.Sig = nil
' ''
run C26 && mut C26 x/pairing/types/relay_exchange.go '		seenBlockBytes,
		rp.Salt,' '		seenBlockBytes,'
run C27 && mut C27 protocol/lavasession/single_provider_session.go 'usedCu+currentCU < usedCu || ' ''
run C30 && mut C30 protocol/chaintracker/chain_tracker.go 'return true, readIndexDiff, overwriteElements, overwriteElements - readIndexDiff' 'return true, readIndexDiff, overwriteElements, overwriteElements - readIndexDiff + 1'
run C31 && mut C31 protocol/chainlib/common.go '		if currentEarliest > 0 && parsedBlock < 0 {
			return currentEarliest' '		if currentEarliest > 0 && parsedBlock < 0 {
			return parsedBlock'
run C32 && mut C32 protocol/chainlib/extensionslib/archive_parser_rule.go 'if latestBlock <= apr.extension.Rule.Block {' 'if false {'
run C34 && mut C34 protocol/relaypolicy/policy.go 'input.AttemptNumber >= p.config.MaxRetries' 'input.AttemptNumber > p.config.MaxRetries'
run C36 && mut C36 protocol/chainlib/chain_fetcher.go '	relayData.SeenBlock = 0                         // remove seen block
' ''
run C29 && mut C29 protocol/rpcprovider/rewardserver/reward_server.go 'if cuSumStored >= proof.CuSum {' 'if cuSumStored <= proof.CuSum {'
run C33 && mut C33 protocol/relaycore/relay_processor.go 'if nilReplies >= crossValidationSize && maxCount < crossValidationSize {' 'if nilReplies >= crossValidationSize && maxCount <= crossValidationSize {'
run C27 && mut C27 protocol/lavasession/provider_session_manager.go 'if singleProviderSession.RelayNum >= relayNumber {' 'if singleProviderSession.RelayNum+1 > relayNumber {'
run C03 && mut C03 x/pairing/keeper/msg_server_relay_payment.go 'if k.IsUniqueEpochSessionExists(ctx, epochStart, relay.Provider, project.Index, relay.SpecId, relay.SessionId) {' 'if k.IsUniqueEpochSessionExists(ctx, epochStart, relay.Provider, project.Index, relay.SpecId, relay.SessionId+1) {'
run C05 && mut C05 x/pairing/keeper/msg_server_relay_payment.go 'if relay.Epoch > ctx.BlockHeight() || relay.Epoch < 0 {' 'if relay.Epoch > ctx.BlockHeight()+20 || relay.Epoch < 0 {'
run C15 && mut C15 x/timerstore/types/timer.go '		if value > tickValue {
			// stop at first' '		if value >= tickValue {
			// stop at first'
run C18 && mut C18 x/pairing/keeper/msg_server_relay_payment.go 'relay.CuSum+badgeUsedCuMapEntry.UsedCu < badgeUsedCuMapEntry.UsedCu || ' ''
run C32 && mut C32 protocol/chainlib/jsonRPC.go 'extensionInfo.LatestBlock > 126 && ' ''
run C31 && mut C31 protocol/chainlib/jsonRPC.go '			earliestRequestedBlock = parsedBlock
		} else {' '		} else {'
run C39 && mut C39 protocol/rpcprovider/rpcprovider_server.go '	if requestSession.LavaChainId != rpcps.lavaChainID {' '	if requestSession.LavaChainId != rpcps.lavaChainID && requestSession.LavaChainId != "" {'
run C28 && mut C28 protocol/lavasession/consumer_session_manager.go '	cuToDecrease := consumerSession.LatestRelayCu
' '	cuToDecrease := consumerSession.LatestRelayCu / 2
'
run C22 && mut C22 x/spec/types/expand.go '			if _, found := depends[index]; found {' '			if _, found := depends[index]; found && index != spec.Index {'
run C28 && mut C28 protocol/lavasession/consumer_types.go '	cswp.Lock.Lock()
	defer cswp.Lock.Unlock()
	// add additional CU for virtual epochs
	if (cswp.UsedComputeUnits + cu) > cswp.MaxComputeUnits*(virtualEpoch+1) {
		return MaxComputeUnitsExceededError
	}' '	if err := cswp.validateComputeUnits(cu, virtualEpoch); err != nil {
		return MaxComputeUnitsExceededError
	}
	cswp.Lock.Lock()
	defer cswp.Lock.Unlock()'
run C40 && mut C40 x/pairing/keeper/scores/score.go 'if randomValue <= newScoreSum.RoundInt64() {' 'if randomValue < newScoreSum.RoundInt64() {'
run C16 && mut C16 x/epochstorage/keeper/fixated_params.go '	} else if latestParamChange >= prevEpochStart {' '	} else if latestParamChange > prevEpochStart {'
run C13 && mut C13 x/fixationstore/types/fixationstore.go '		if latestEntry.HasDeleteAt() {' '		if latestEntry.HasDeleteAt() && block > ctxBlock {'
run C02 && mut C02 x/pairing/keeper/filters/frozen_providers_filter.go 'return stakeEntry.StakeAppliedBlock > currentEpoch' 'return stakeEntry.StakeAppliedBlock > currentEpoch+1000'
run C20 && mut C20 x/conflict/keeper/vote.go '	halfTotalVotes := totalVotes.Quo(sdk.NewIntFromUint64(MajorityDiv))' '	halfTotalVotes := totalVotes.Quo(sdk.NewIntFromUint64(MajorityDiv)).SubRaw(1)'
run C19 && mut C19 x/pairing/keeper/unresponsive_provider.go '		if len(epochs) != 0 && existingProviders[chainID] > minProviders {' '		if len(epochs) != 0 && existingProviders[chainID] >= minProviders {'
run C42 && mut C42 x/rewards/keeper/iprpc.go '		k.addSpecFunds(ctx, fund.Spec, fund.Fund, 1, false)' '		k.addSpecFunds(ctx, fund.Spec, fund.Fund, 1, true)'
run C42 && mut C42 x/rewards/keeper/iprpc.go '	for i := startID; i < startID+duration; i++ {' '	for i := startID; i <= startID+duration; i++ {'
run C42 && mut C42 x/rewards/keeper/providers.go '	if !k.IsIprpcSubscription(ctx, subscription) {' '	if false {'
run C17 && mut C17 x/projects/keeper/creation.go '		if found && devkeyData.ProjectID != project.GetIndex() {
			return utils.LavaFormatWarning("failed to register key",' '		if false && devkeyData.ProjectID != project.GetIndex() {
			return utils.LavaFormatWarning("failed to register key",'
run C17 && mut C17 x/projects/keeper/project.go '		if proj.Snapshot != project.Snapshot {
			break
		}' ''
run C24 && mut C24 x/pairing/keeper/reputation.go '		} else if score.GT(benchmark) {' '		} else if score.GT(benchmark.MulInt64(2)) {'
run C24 && mut C24 x/pairing/keeper/reputation.go 'scaledScore = types.MinReputationPairingScore.Add((benchmark.Quo(score)).Mul(scale))' 'scaledScore = types.MinReputationPairingScore.Add((benchmark.Quo(score)).Mul(scale.Add(types.MinReputationPairingScore)))'
run C24 && mut C24 x/pairing/types/qos_score.go '	qs.Score.Denom = qs.Score.Denom.Add(math.LegacyNewDec(weight))' '	qs.Score.Denom = qs.Score.Denom.Sub(math.LegacyNewDec(weight))'
run C01 && mut C01 utils/lavaslices/slices.go '	slices.Sort(keys)
' ''
run C14 && mut C14 x/fixationstore/types/fixationstore.go '		if entry.Block < lastEntry.DeleteAt || entry.Block <= ctxBlock {' '		if entry.Block < lastEntry.DeleteAt || entry.Block < ctxBlock {'
run C14 && mut C14 x/fixationstore/types/fixationstore.go '		latestEntry.IsLatest = false
		fs.putEntry(ctx, latestEntry) // also saves updated latestEntry
	}

	// we are now the latest entry' '		latestEntry.IsLatest = false
		fs.setEntry(ctx, latestEntry)
	}

	// we are now the latest entry'
run C10 && mut C10 x/dualstaking/keeper/delegator_reward.go '		k.RemoveDelegatorReward(ctx, reward.Provider, delegator)
' ''
run C10 && mut C10 x/dualstaking/keeper/delegator_reward.go '	fullProviderReward := providerReward.Add(leftoverRewards...)' '	fullProviderReward := providerReward.Add(leftoverRewards...).Add(leftoverRewards...)'
run C14 && mut C14 x/fixationstore/types/fixationstore.go '	if found && block > ctxBlock && entry.IsDeleted(ctx) {' '	if false && block > ctxBlock && entry.IsDeleted(ctx) {'
run C12 && mut C12 x/subscription/keeper/subscription.go '	sub.MonthCuLeft = sub.MonthCuTotal
	sub.Block = block' '	sub.Block = block'
run C12 && mut C12 x/subscription/keeper/subscription.go '	sub.DurationBought = duration
	sub.DurationLeft += duration' '	sub.DurationBought = duration
	sub.DurationLeft = duration'
run C07 && mut C07 x/dualstaking/keeper/delegate.go '			entry.Freeze()
' ''
run C07 && mut C07 x/dualstaking/keeper/delegate.go '				metadata.TotalDelegations, err = metadata.TotalDelegations.SafeSub(amount)' '				metadata.TotalDelegations, err = metadata.TotalDelegations.SafeSub(amount.SubAmount(sdk.OneInt()))'
exit 0
