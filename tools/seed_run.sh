#!/bin/bash
# usage: tools/seed_run.sh <seed-name> <check id> [tier]   — applies /verif/seeded/<seed>/patch.diff to a scratch copy of /repo
# and runs the check there (VERIF_REPO), evidence to a scratch dir. Prints DETECTED / MISSED.
cd "$(dirname "$0")/.." || exit 2
seed=$1; id=$2; tier=${3:-quick}
S=${TMPDIR:-/tmp}/verif-seedrun-$$
trap 'rm -rf "$S" "$S.ev"' EXIT
mkdir -p "$S"; rsync -a --exclude .git --exclude _seed /repo/ "$S/"
(cd "$S" && patch -p1 -s < ${SEED_PATCH:-/verif/seeded/$seed/patch.diff}) || { echo "patch failed"; exit 2; }
out=$(VERIF_REPO="$S" VERIF_DIR=/verif VERIF_EVIDENCE_DIR="$S.ev" ./bin/gosym check "$id" --tier "$tier" 2>&1)
if echo "$out" | grep -q "^VIOLATION property=$id"; then echo "SEED $seed vs $id: DETECTED"; echo "$out" | grep '^VIOLATION' | cut -c1-300 | head -3
else echo "SEED $seed vs $id: MISSED"; echo "$out" | tail -4 | cut -c1-300; fi
