#!/usr/bin/env python3
"""Regenerates /verif/MANIFEST.json from checks/*.json (+ checks/meta.json for per-check notes and the n/a reasons)."""
import json, glob, os, sys
root = os.path.dirname(os.path.dirname(os.path.abspath(__file__)))
meta = json.load(open(os.path.join(root, "checks", "meta.json")))
props = [json.loads(l)["id"] for l in open(os.path.join(root, "properties.jsonl")) if l.strip()]
checks, claimed = [], []
for f in sorted(glob.glob(os.path.join(root, "checks", "C*.json"))):
    c = json.load(open(f))
    pid = c["property"]
    m = meta["checks"].get(pid, {})
    claimed.append(pid)
    hs = ", ".join(h["name"] for h in c["harnesses"])
    checks.append({
        "property_id": pid,
        "quick_cmd": "./bin/check %s --tier quick" % pid,
        "thorough_cmd": "./bin/check %s --tier thorough" % pid,
        "evidence_file": "evidence/%s.json" % pid,
        "replay_cmd_template": "./bin/check %s --replay {path}" % pid,
        "engine": "gosym",
        "level_claimed": {
            "category": "model_checking",
            "text": m.get("text", "Bounded symbolic execution of the real functions (go/ssa of /repo's working tree) from the harnesses %s: every assertion on every path is an SMT query; unsat = holds for all inputs within the stated bounds, sat = concrete counterexample replayed natively with go test -overlay." % hs),
            "design_ref": m.get("design_ref", "DESIGN.md section 5 (%s) and Amendments" % pid),
        },
        "level_note": "Bounds/assumptions: " + "; ".join(c.get("assumptions", [])) + ". Outside the claim: " + "; ".join(c.get("outside_claim", [])) + ". Trusted: go/ssa, the gosym encoder and its library models (DESIGN section 3), z3.",
        "technique": "SSA -> SMT-LIB2 bounded symbolic execution, z3 verdict, native replay",
    })
na = []
for pid in props:
    if pid in claimed:
        continue
    na.append({"property_id": pid, "reason": meta["not_applicable"].get(pid, "encodable in principle (DESIGN.md section 5) but the harness was not built and run clean in the time available; not claimed")})
man = {
    "version": 1,
    "setup_cmd": "./setup.sh",
    "hooks": {
        "guard": "verif",
        "enable": "no hooks: harnesses are injected at check time through go/packages overlays (symbolic run) and go test -overlay (native replay); nothing is compiled into /repo",
        "baseline_off_cmd": "cd /repo && go test -mod=mod -vet=off -count=1 -timeout 25m ./...",
        "source_commits": [],
        "add_only": True,
    },
    "engines": [{"name": "gosym", "path": "engine", "serves_properties": claimed,
                 "kind_free_text": "Go SSA -> SMT-LIB2 symbolic executor (path-forking by re-execution), z3 back end (z3-new 5.1.0, fallback z3 4.8.12 / cvc5), native replay of every model"}],
    "checks": checks,
    "not_applicable": na,
    "notes": meta.get("notes", ""),
}
json.dump(man, open(os.path.join(root, "MANIFEST.json"), "w"), indent=1)
print("claimed:", " ".join(claimed)); print("not applicable:", len(na))
