#!/bin/bash
# Engine self test (not a registered check): runs gosym on the small corpus in /verif/selftest, whose harnesses contain
# true claims and two deliberately wrong ones; expects exactly those two to come back as natively replayed violations.
cd "$(dirname "$0")/.." || exit 2
out=$(VERIF_REPO=$PWD/selftest/corpus VERIF_DIR=$PWD/selftest ./bin/gosym check SELFTEST --cfg selftest/corpus.json 2>&1)
got=$(echo "$out" | grep '^VIOLATION' | sed 's/.*label="\([^"]*\)".*/\1/' | sort | tr '\n' ' ')
inc=$(echo "$out" | grep -c '^INCONCLUSIVE')
if [ "$got" = "rect-area-wrong-claim sub-no-wrap " ] && [ "$inc" = 0 ]; then echo "selftest ok: $got"; exit 0; fi
echo "selftest FAILED: violations=[$got] inconclusive=$inc"; echo "$out" | tail -20; exit 1
