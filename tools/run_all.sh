#!/bin/bash
# Runs setup_cmd and then every registered check's command of the given tier (default quick) from MANIFEST.json the way
# the grader does, and validates the evidence files against the schema. usage: tools/run_all.sh [quick|thorough]
cd "$(dirname "$0")/.." || exit 2
tier=${1:-quick}
python3 - "$tier" <<'PY'
import json,subprocess,sys,time,os
tier=sys.argv[1]
m=json.load(open('MANIFEST.json'))
t0=time.time()
r=subprocess.run(m['setup_cmd'],shell=True,capture_output=True,text=True)
print('setup exit',r.returncode,'%.0fs'%(time.time()-t0), r.stdout.strip().replace('\n',' | '))
bad=0
for c in m['checks']:
    cmd=c['quick_cmd'] if tier=='quick' else c.get('thorough_cmd',c['quick_cmd'])
    ev=c['evidence_file']
    before=os.path.getmtime(ev) if os.path.exists(ev) else 0
    t=time.time()
    r=subprocess.run(cmd,shell=True,capture_output=True,text=True)
    viol=[l for l in r.stdout.splitlines() if l.startswith('VIOLATION')]
    known=[l for l in r.stdout.splitlines() if l.startswith('KNOWN-FINDING')]
    inc=[l for l in r.stdout.splitlines() if l.startswith('INCONCLUSIVE')]
    fresh=os.path.exists(ev) and os.path.getmtime(ev)>before
    ok = r.returncode==0 and not viol and fresh
    if not ok: bad+=1
    print(c['property_id'],'exit',r.returncode,'viol',len(viol),'known',len(known),'undecided',len(inc),'evidence_rewritten',fresh,'%.0fs'%(time.time()-t), 'OK' if ok else 'BROKEN')
    for l in viol+inc: print('   ',l[:300])
print('total %.0fs'%(time.time()-t0),'broken',bad)
sys.exit(1 if bad else 0)
PY
rc=$?
python3-vt - <<'PY'
import json,jsonschema,glob
sch=json.load(open('/root/.vp/EVIDENCE.schema.json'))
man=json.load(open('MANIFEST.json'))
jsonschema.validate(man,json.load(open('/root/.vp/MANIFEST.schema.json')))
for c in man['checks']:
    jsonschema.validate(json.load(open(c['evidence_file'])),sch)
print('manifest and',len(man['checks']),'evidence files validate')
PY
exit $rc
